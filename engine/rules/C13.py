"""C13 — self-pipe wake: one non-blocking byte per delivery; descriptor owned and closed once."""
import re
from .. import cfg
from ..anchors import dispatch_cone, is_user_code
from ..effects import norm
from ..facts import strip_generics, keyname, AnchorLost
from ..flow import flow, fold, strip, deep_strip, show, mentions
from .util import (call_sites, foreign, exactly_once, or_terms, result_gates, closure_constructions, adt_constructions,
                   type_instances)

MSG_DONTWAIT = 0x40
O_NONBLOCK = 0x800
F_SETFL = 4
WAKEFD = "signal_hook::low_level::pipe::WakeFd"


def wake_fn(F):
    """the self-pipe wake primitive: the workspace function in the dispatch cone that calls libc::send"""
    cone = dispatch_cone(F)
    c = [m for m in cone.members if m.local and m.body is not None and call_sites(F, m, foreign("send"))]
    if len(c) != 1:
        raise AnchorLost("self-pipe wake primitive: expected one function in the dispatch cone calling send(), found %s" % [x.name for x in c])
    return c[0]


def set_flags_fns(F):
    """functions that switch a descriptor to non-blocking: call fcntl(_, F_SETFL, flags)"""
    out = []
    for m in F.inst:
        if not (m.local and m.body is not None):
            continue
        for bb, t, ci in call_sites(F, m, foreign("fcntl")):
            cmd = [fold(e) for e in flow(m).term_arg(bb, 1)]
            if cmd and all(c == F_SETFL for c in cmd):
                out.append((m, bb, t))
    return out


_b_cache = {}


def c13b(F):
    """returns list of (ok, key, what, where, detail)"""
    if id(F) in _b_cache:
        return _b_cache[id(F)]
    res = []
    sf = set_flags_fns(F)
    if not sf:
        raise AnchorLost("no function sets F_SETFL (O_NONBLOCK) on the wake descriptor")
    sf_ids = set()
    for (m, bb, t) in sf:
        args = flow(m).term_arg(bb, 2)
        okk = bool(args) and all(any((fold(x) or 0) & O_NONBLOCK for x in or_terms(e)) for e in args)
        res.append((okk, "setfl-nonblock@%s" % keyname(m.name), "fcntl(F_SETFL) argument contains the O_NONBLOCK constant",
                    t["sp"], {"flags": [show(e) for e in args]}))
        # the function reports failure of that fcntl: Ok(()) is returned only when the call did not return -1
        sf_ids.add(m.id)
    # every construction of a WakeFd with the `write` method is followed by a successful set_flags before it can
    # reach an action closure
    n_sites = 0
    for m in F.inst:
        if not (m.local and m.body is not None):
            continue
        for (bb, si, rv) in adt_constructions(m, WAKEFD):
            fields = rv["fields"]
            mi = fields.index("method") if "method" in fields else None
            if mi is None:
                raise AnchorLost("WakeFd has no `method` field")
            meth = flow(m).operand(rv["ops"][mi], (bb, si))
            is_write = any(not (e[0] == "agg" and e[1][0] == "adt" and e[1][2] == "Send") and
                           not (e[0] == "const" and e[4] == "Send") for e in meth)
            n_sites += 1
            if not is_write:
                res.append((True, "wakefd-send@%s" % keyname(m.name), "WakeFd built with the send method (MSG_DONTWAIT per call)", rv.get("sp"), None))
                continue
            clos = closure_constructions(m)
            sf_calls = [b for (b, t, ci) in call_sites(F, m, lambda ci: ci.id in sf_ids)]
            for (cb, csi, crv) in clos:
                if cb not in cfg.reachable(m, bb, unwind=False):
                    continue
                r = cfg.reachable(m, bb, avoid=set(sf_calls), unwind=False)
                through = cb not in r
                gated = False; why = "no set_flags call on the path"
                if through and sf_calls:
                    gated, why = True, ""
                    for s in sf_calls:
                        g, w = result_gates(F, m, s, cb)
                        if not g:
                            gated, why = False, w
                res.append((through and gated, "wakefd-write@%s" % keyname(m.name),
                            "a WakeFd using write() reaches the action closure only through a successful O_NONBLOCK switch",
                            m.blocks[bb]["s"][si]["sp"], {"passes_set_flags": through, "result_checked": why}))
    if n_sites < 2:
        raise AnchorLost("expected the two WakeFd constructions (send / write) of register_raw, found %d" % n_sites)
    # every caller of the wake primitive passes either the constant Send or the `method` field of a WakeFd
    w = wake_fn(F)
    for (cid, k, bb) in F.callers().get(w.id, []):
        ci = F.inst[cid]
        if ci.body is None or k != "call":
            continue
        # which argument is the method: the one whose type is WakeMethod
        t = ci.term(bb)
        for ai, a in enumerate(t["args"]):
            ex = flow(ci).term_arg(bb, ai)
            tyok = False
            for e in ex:
                e = deep_strip(e)
                if e[0] == "agg" and e[1][0] == "adt" and e[1][1].endswith("WakeMethod"):
                    tyok = True
                    res.append((e[1][2] == "Send", "wake-caller@%s" % keyname(ci.name),
                                "caller passes the constant send method", t["sp"], {"method": show(e)}))
                elif e[0] == "field" and e[2] == "method":
                    tyok = True
                    res.append((WAKEFD in (e[4] or ""), "wake-caller@%s" % keyname(ci.name),
                                "caller passes the method recorded in its WakeFd", t["sp"], {"method": show(e)}))
    _b_cache[id(F)] = res
    return res


def nonblock_write_established(ctx, F, m, bb):
    """used by C03.a for the write() call site inside the wake primitive"""
    try:
        w = wake_fn(F)
    except AnchorLost as e:
        return False, str(e)
    if m.id != w.id:
        return False, "write() outside the self-pipe wake primitive"
    res = c13b(F)
    bad = [r for r in res if not r[0]]
    return (not bad), ({"failed": [r[1] for r in bad]} if bad else None)


def rule_a(ctx):
    F = ctx.F
    rid = "C13.a"
    ctx.rule(rid, "the wake primitive makes exactly one call in {write, send} on every path, outside any loop, with length "
                  "constant 1, send carrying MSG_DONTWAIT; every wake action reaches it exactly once per invocation", floor=6)
    w = wake_fn(F)
    ctx.fn(w)
    sites = call_sites(F, w, lambda ci: ci.kind == "foreign" and ci.symbol in ("write", "send", "sendto", "sendmsg", "writev"))
    okk, why = exactly_once(w, [b for b, _, _ in sites])
    ctx.check(okk, rid, "wake:once", "exactly one write/send per wake on every path", w.span, why)
    for (bb, t, ci) in sites:
        ln = [fold(e) for e in flow(w).term_arg(bb, 2)]
        ctx.check(ln and all(v == 1 for v in ln), rid, "wake:len:%s" % ci.symbol, "%s length is the constant 1" % ci.symbol, t["sp"],
                  {"length": [show(e) for e in flow(w).term_arg(bb, 2)]})
        if ci.symbol == "send":
            fl = [fold(e) for e in flow(w).term_arg(bb, 3)]
            ctx.check(fl and all(v is not None and v & MSG_DONTWAIT for v in fl), rid, "wake:dontwait",
                      "send carries MSG_DONTWAIT", t["sp"], {"flags": [show(e) for e in flow(w).term_arg(bb, 3)]})
        elif ci.symbol != "write":
            ctx.bad(rid, "wake:prim:%s" % ci.symbol, "unexpected write primitive %s" % ci.symbol, t["sp"])
        ctx.analysed["call_sites"] += 1
    # chain from each action root down to the primitive: exactly one call per frame
    from ..anchors import action_instances
    from ..effects import Cone
    cone = Cone(F, [a for a, _ in action_instances(F)])     # frames below the action roots (not the dispatcher and its helpers)
    reaches = set()
    callers = F.callers()
    st = [w.id]
    while st:
        x = st.pop()
        if x in reaches:
            continue
        reaches.add(x)
        for (cid, k, bb) in callers.get(x, []):
            if cid in cone.parent and cid not in reaches:
                st.append(cid)
    n = 0
    for fid in sorted(reaches):
        fi = F.inst[fid]
        if fi.body is None or fid == w.id or not fi.local or is_user_code(fi):
            continue
        blocks = [bb for bb, t in fi.calls() if t.get("f") in reaches or
                  (t.get("f") is not None and F.inst[t["f"]].kind == "virtual" and any(tid in reaches for tid, _ in F.inst[t["f"]].impls or []))]
        okk, why = exactly_once(fi, blocks)
        # conditional actions are not wake actions; only frames that call it on some path are listed
        ctx.check(okk, rid, "wake-chain:%s" % keyname(fi.name), "%s reaches the wake primitive exactly once per invocation" % fi.name, fi.span, why)
        ctx.fn(fi); n += 1
    if n < 4:
        raise AnchorLost("expected >= 4 frames between the wake actions and the wake primitive, found %d" % n)


def rule_b(ctx):
    rid = "C13.b"
    ctx.rule(rid, "a WakeFd using write() reaches the action closure only through a successful set_flags whose F_SETFL "
                  "argument contains O_NONBLOCK; callers of the primitive pass Send or the recorded method", floor=5)
    for (okk, key, what, where, detail) in c13b(ctx.F):
        ctx.check(okk, rid, key, what, where, detail)


def rule_c(ctx):
    F = ctx.F
    rid = "C13.c"
    ctx.rule(rid, "the owned descriptor is closed only by Drop for WakeFd; the owner type is never cloned/forgotten/bitwise-read; "
                  "register_raw owns the descriptor before any exit and drops or moves the owner on every path", floor=4)
    drop = F.one(name_re=r"^<signal_hook::low_level::pipe::WakeFd as core::ops::drop::Drop>::drop$", what="Drop for WakeFd")
    ctx.fn(drop)
    n_close = 0
    for m in F.inst:
        if not (m.local and m.body is not None) or is_user_code(m):
            continue
        for (bb, t, ci) in call_sites(F, m, foreign("close")):
            ex = flow(m).term_arg(bb, 0)
            owned = any(mentions(e, lambda x: x[0] == "field" and x[2] == "fd" and WAKEFD in (x[4] or "")) for e in ex)
            raw_param = m.defp == "signal_hook::low_level::pipe::register_raw" and any(mentions(e, lambda x: x[0] == "param") for e in ex)
            in_cone = m.id in dispatch_cone(F).parent
            if owned or raw_param or in_cone:
                n_close += 1
                ctx.check(m.id == drop.id, rid, "close@%s" % keyname(m.name),
                          "close() of the wake descriptor happens only in Drop for WakeFd", t["sp"], {"fd": [show(e) for e in ex]})
    ctx.check(n_close >= 1, rid, "close:exists", "Drop for WakeFd closes the descriptor (%d site)" % n_close, drop.span,
              "the owner no longer closes its descriptor")
    c = call_sites(F, drop, foreign("close"))
    okk, why = exactly_once(drop, [b for b, _, _ in c]) if c else (False, "no close")
    ctx.check(okk, rid, "close:once", "Drop for WakeFd closes exactly once on every path", drop.span, why)
    esc = type_instances(F, WAKEFD, [r"^core::mem::forget::<", r"ManuallyDrop::<.*>::new$", r"^core::ptr::read(_volatile|_unaligned)?::<",
                                     r" as core::clone::Clone>::clone", r"^core::mem::transmute_copy"])
    esc = [i for i in esc if re.search(r"(forget|new|read\w*|transmute_copy)::<[^>]*WakeFd|<signal_hook::low_level::pipe::WakeFd as core::clone::Clone>", i.name)
           or i.name.startswith("core::mem::manually_drop::ManuallyDrop::<signal_hook::low_level::pipe::WakeFd")]
    ctx.check(not esc, rid, "owner:no-escape", "no forget/ManuallyDrop/ptr::read/Clone instance on WakeFd in the monomorphic program",
              None, [i.name for i in esc])
    rr = F.one("signal_hook::low_level::pipe::register_raw")
    ctx.fn(rr)
    aggs = adt_constructions(rr, WAKEFD)
    ab = {bb for bb, _, _ in aggs}
    r = cfg.reachable(rr, 0, avoid=ab, unwind=False)
    ctx.check(not (r & set(rr.exits())) and aggs, rid, "register_raw:owns-before-exit",
              "every normal exit of register_raw is preceded by the construction of the owning WakeFd", rr.span,
              "a return is reachable without constructing the owner (descriptor would leak on rejection)")
    # after construction: every path to return moves the owner into the action closure or drops it
    clos = {bb for bb, _, _ in closure_constructions(rr)}
    drops = {bb for bb, t in rr.drops() if WAKEFD in t["ty"]}
    for bb in ab:
        r = cfg.reachable_after(rr, bb, avoid=clos | drops, unwind=False) | ({bb} - clos)
        bad = (r & set(rr.exits()))
        # the aggregate block itself may contain the closure construction
        ctx.check(not bad, rid, "register_raw:owner-dropped-or-moved#%d" % len(rr.blocks[bb]["s"]),
                  "after constructing the owner every path to return moves it into the action or drops it (RAII close)",
                  rr.term(bb)["sp"], "a path to return neither moves nor drops the WakeFd")


def rule_d(ctx):
    """never written to after close: the descriptor handed to the wake primitive is obtained, at wake time, from an owner the action itself keeps
    alive (as_raw_fd() on a captured owning object, or the fd field of the captured WakeFd) — not a bare number captured at registration"""
    F = ctx.F
    rid = "C13.d"
    ctx.rule(rid, "every descriptor passed to the wake primitive in the dispatch cone comes from an owner captured by the action (AsRawFd::as_raw_fd "
                  "of a captured object / the WakeFd's fd field); a raw integer captured at registration time is refused", floor=2)
    w = wake_fn(F)
    cone = dispatch_cone(F)
    n = 0
    for (cid, k, bb) in F.callers().get(w.id, []):
        c = F.inst[cid]
        if c.body is None or k != "call" or cid not in cone.parent:
            continue
        n += 1
        ctx.fn(c)
        ex = [deep_strip(e) for e in flow(c).term_arg(bb, 0)]
        okk = True; how = []
        for e in ex:
            x = e
            if x[0] == "call" and ((x[3] or "").endswith("AsRawFd::as_raw_fd") or _returns_live_fd(F, c, x)):
                how.append("as_raw_fd() at wake time"); continue
            if x[0] == "field" and x[2] == "fd" and WAKEFD in (x[4] or ""):
                how.append("WakeFd.fd"); continue
            if x[0] == "param":
                how.append("parameter (checked at the caller)"); continue
            okk = False; how.append("captured/raw value: " + show(x))
        ctx.check(okk, rid, "fd-from-owner@%s" % keyname(c.name), "%s passes a descriptor obtained from a live owner" % c.name.split("::")[-1][:60], c.term(bb)["sp"],
                  {"fd": how, "why": "the owner may be closed (and the number reused) while the action is still registered"})
    if n < 2:
        raise AnchorLost("callers of the wake primitive in the dispatch cone: %d" % n)


def _returns_live_fd(F, c, x):
    """call of a workspace helper on `self`/a captured owner that itself returns as_raw_fd() of it"""
    if x[2] is None:
        return False
    f = F.inst[x[2]]
    if f.kind == "virtual":
        tg = [F.inst[t] for t, _ in f.impls or []]
    else:
        tg = [f]
    okk = bool(tg)
    for g in tg:
        if g.body is None:
            return False
        rets = [deep_strip(r) for rb in g.exits() for r in flow(g).place({"l": 0, "p": []}, (rb, len(g.stmts(rb))))]
        if not rets or not all(r[0] == "call" and (r[3] or "").endswith("AsRawFd::as_raw_fd") for r in rets):
            okk = False
    return okk


def rule_e(ctx):
    """one wake action per (instance, signal): a second registration of the same write end would write two bytes per delivery and survive the
    instance (shared with C12.f)"""
    from .C12 import rule_f
    rule_f(ctx, rid="C13.e")


def rule_f(ctx):
    """the descriptor handed to register_raw is owned (wrapped in the closing owner) before anything that can panic: a refusal by panic must
    release it like every other rejection"""
    F = ctx.F
    rid = "C13.f"
    ctx.rule(rid, "in register_raw no explicit panic site (assert / panic / documented-panicking call) is reachable before the owning WakeFd exists "
                  "(unwinding before that point leaks the descriptor)", floor=1)
    from .C03 import panic_sites, undischarged_sites
    rr = F.one("signal_hook::low_level::pipe::register_raw")
    ctx.fn(rr)
    aggs = {bb for bb, _, _ in adt_constructions(rr, WAKEFD)}
    if not aggs:
        raise AnchorLost("owner construction in register_raw")
    early = cfg.reachable(rr, 0, avoid=aggs, unwind=False)
    bad = []
    for site in panic_sites(F, rr):
        kind, key, bb, sp, info = site
        if bb in early:
            bad.append({"site": key, "where": sp})
    for bb in sorted(early):
        t = rr.term(bb)
        if t["k"] == "call" and t.get("f") is not None:
            c = F.inst[t["f"]]
            if c.local and c.body is not None:
                und, _ = undischarged_sites(ctx, F, [c])
                for (fm, s, ch) in und[:2]:
                    bad.append({"call": c.name[:120], "panic_site": s[1], "where": s[3]})
    ctx.check(not bad, rid, "no-panic-before-owner", "nothing can panic in register_raw before the descriptor is wrapped in its closing owner", rr.span,
              {"panic_sites_before_owner": bad, "why": "the refusal of a forbidden signal must release the descriptor (C14): a panic before WakeFd exists leaks it"})


def run(ctx):
    from .. import fixtures
    ctx.guarded("C13.e", rule_e)
    ctx.guarded("C13.f", rule_f)
    ctx.guarded("C13.FX", lambda c: fixtures.run(c, ['escapes']))
    ctx.guarded("C13.d", rule_d)
    ctx.guarded("C13.a", rule_a)
    ctx.guarded("C13.b", rule_b)
    ctx.guarded("C13.c", rule_c)
    ctx.note("not decided: byte-count inequalities; the descriptor-kind detection logic (value-level match on send()'s errno)")
    ctx.assume("closing after the registry's grace period is C01; rejection by a forbidden signal drops the action by unwinding (C14.b)")
