"""C13 — self-pipe wake: one non-blocking byte per delivery; descriptor owned and closed once."""
import re
from .. import cfg
from ..anchors import dispatch_cone, is_user_code
from ..effects import norm
from ..facts import strip_generics, keyname, AnchorLost
from ..flow import flow, fold, strip, deep_strip, show, mentions, deps
from .util import (call_sites, foreign, exactly_once, or_terms, result_gates, closure_constructions, adt_constructions,
                   type_instances)

MSG_DONTWAIT = 0x40
O_NONBLOCK = 0x800
F_SETFL = 4
PIPE_MOD = "signal_hook::low_level::pipe::"
_OWNER = {}


def owner_type(F):
    """the type that owns the wake descriptor, by role: the one type of low_level::pipe whose Drop impl closes a descriptor (`WakeFd` today)"""
    k = id(F)
    if k not in _OWNER:
        cands = set()
        for i in F.inst:
            mm = re.match(r"^<(signal_hook::low_level::pipe::\w+) as core::ops::drop::Drop>::drop$", i.name)
            if mm and i.local and i.body is not None and call_sites(F, i, foreign("close")):
                cands.add(mm.group(1))
        if len(cands) != 1:
            raise AnchorLost("the type of low_level::pipe whose Drop closes the wake descriptor: found %s" % sorted(cands))
        _OWNER[k] = (F, cands.pop())
    return _OWNER[k][1]


def method_type(F):
    """the enum recording how to wake (send / write): the enum-typed field of the owner (or of the private struct it wraps)"""
    return wakefd_fields(F)[2]


def wake_fn(F):
    """the self-pipe wake primitive: the workspace function in the dispatch cone that calls libc::send"""
    cone = dispatch_cone(F)
    c = [m for m in cone.members if m.local and m.body is not None and call_sites(F, m, foreign("send"))]
    if len(c) != 1:
        raise AnchorLost("self-pipe wake primitive: expected one function in the dispatch cone calling send(), found %s" % [x.name for x in c])
    return c[0]


class _Role(tuple):
    """(owning type path, field name); compares equal to nothing else — use is_field()"""


def is_field(x, role):
    return x[0] == "field" and x[2] == role[1] and role[0] in (x[4] or "")


def wakefd_fields(F):
    """(descriptor role, method role) of the owning type, located by type — in WakeFd itself or in a private struct of the module it wraps
    (`WakeFd(Waker { fd, method })`)"""
    adts = {a["path"]: a for c, a in F.crate_items("adts")}
    fd = []; me = []

    def visit(path, depth=0):
        a = adts.get(path)
        if a is None or len(a["variants"]) != 1 or depth > 2:
            return
        for f in a["variants"][0]["fields"]:
            if f["ty"] == "i32":
                fd.append(_Role((path, f["name"])))
            elif f["ty"].startswith(PIPE_MOD) and f["ty"] in adts and len(adts[f["ty"]]["variants"]) >= 2:
                me.append(_Role((path, f["name"]))); mty.append(f["ty"])
            elif f["ty"].startswith(PIPE_MOD) and f["ty"] in adts:
                visit(f["ty"], depth + 1)
    mty = []
    W = owner_type(F)
    if W not in adts:
        raise AnchorLost("type %s" % W)
    visit(W)
    if len(fd) != 1 or len(me) != 1:
        raise AnchorLost("wake descriptor owner: one RawFd field and one wake-method (enum) field expected, found %s / %s" % (fd, me))
    return _Fields((fd[0], me[0], mty[0]))


class _Fields(tuple):
    """(descriptor role, method role, method enum type); unpacks as a pair for the older call sites"""

    def __iter__(self):
        return iter((self[0], self[1]))


def method_of_construction(F, fl, rv, at, mef):
    """expressions of the wake method a WakeFd aggregate is built with (looking into a nested private struct if there is one)"""
    out = []

    def dig(e, owner, depth=0):
        e = deep_strip(e)
        if e[0] != "agg" or e[1][0] != "adt" or depth > 2:
            return
        try:
            a = F.adt(e[1][1])
        except AnchorLost:
            return
        for k, sub in enumerate(e[2]):
            fname = a["variants"][0]["fields"][k]["name"] if k < len(a["variants"][0]["fields"]) else str(k)
            if e[1][1] == mef[0] and fname == mef[1]:
                out.append(deep_strip(sub))
            else:
                dig(sub, e[1][1], depth + 1)
    fields = rv["fields"]
    if rv["def"] == mef[0] and mef[1] in fields:
        return [deep_strip(e) for e in fl.operand(rv["ops"][fields.index(mef[1])], at)]
    for o in rv["ops"]:
        for e in fl.operand(o, at):
            dig(e, rv["def"])
    return out


def owner_builders(F):
    """public entry points whose normal form constructs the owning WakeFd: [(function, normal form)]"""
    from .nf import NF
    out = []
    for i in F.inst:
        if i.local and i.body is not None and i.kind == "item" and i.crate == "signal_hook" and i.defp.startswith("signal_hook::low_level::pipe::"):
            fn = None
            for c, f in F.crate_items("fns"):
                if f["path"] == i.defp:
                    fn = f
            if fn is None or not fn["pub"]:
                continue
            n = NF(F, i)
            if adt_constructions(n, owner_type(F)):
                out.append((i, n))
    if not out:
        raise AnchorLost("no public function of low_level::pipe constructs the owning WakeFd")
    return out


def setfl_calls(F, n):
    """fcntl(_, F_SETFL, flags) calls in a body: [(bb, term)]"""
    out = []
    for bb, t, ci in call_sites(F, n, foreign("fcntl")):
        cmd = [fold(e) for e in flow(n).term_arg(bb, 1)]
        if cmd and all(c == F_SETFL for c in cmd):
            out.append((bb, t))
    return out


def failure_edges(n, call_bb, failure_value):
    """switch edges taken when the integer result of the call at call_bb equals `failure_value`: (test blocks, {(src, dst)})"""
    from ..conds import switch_edges
    tests = set(); fail = set()
    for (b, tgt, lab, exprs, t) in switch_edges(n):
        for e in exprs:
            e = deep_strip(e)
            val = int(lab[3:]) if lab.startswith("sw:") else None
            if e[0] == "call" and e[1] == call_bb:
                tests.add(b)
                fv = failure_value & 0xffffffff
                vals = [v for v, _ in t["vals"]]
                if val is not None and (val == failure_value or val == fv or val == (failure_value & 0xffffffffffffffff)):
                    fail.add((b, tgt))
                elif val is None and not any(v in (failure_value, fv, failure_value & 0xffffffffffffffff) for v in vals):
                    pass
            elif e[0] == "binop" and e[1] in ("Eq", "Ne"):
                x, y = deep_strip(e[2]), deep_strip(e[3])
                hit = None
                for p_, q in ((x, y), (y, x)):
                    if p_[0] == "call" and p_[1] == call_bb and fold(q) is not None and (fold(q) == failure_value or fold(q) == (failure_value & 0xffffffff)):
                        hit = True
                if not hit:
                    continue
                tests.add(b)
                is_true = (val is not None and val != 0) or (val is None and [v for v, _ in t["vals"]] == [0])
                if (e[1] == "Eq" and is_true) or (e[1] == "Ne" and not is_true):
                    fail.add((b, tgt))
    return tests, fail


_b_cache = {}
_pipe_actions = {}


def c13b(F):
    """returns list of (ok, key, what, where, detail)"""
    if id(F) in _b_cache:
        return _b_cache[id(F)]
    res = []
    fdf, mef = wakefd_fields(F)
    n_sites = 0; n_setfl = 0
    for (m0, m) in owner_builders(F):
        fl = flow(m)
        sf = setfl_calls(F, m)
        for (bb, t) in sf:
            n_setfl += 1
            args = fl.term_arg(bb, 2)
            okk = bool(args) and all(any((fold(x) or 0) & O_NONBLOCK for x in or_terms(e)) for e in args)
            res.append((okk, "setfl-nonblock@%s" % keyname(m0.name), "fcntl(F_SETFL) argument contains the O_NONBLOCK constant",
                        t["sp"], {"flags": [show(e) for e in args]}))
        # the action: the closure value handed to the registry (other closures — arguments of std adapters — are not it)
        action_defs = set()
        for rb, rt in m.calls():
            if rt.get("f") is not None and F.inst[rt["f"]].defp.startswith("signal_hook_registry::register"):
                for e in fl.term_arg(rb, 1):
                    e = deep_strip(e)
                    if e[0] == "agg" and e[1][0] == "closure":
                        action_defs.add(e[1][1])
        _pipe_actions.setdefault(id(F), set()).update(action_defs)
        # the registration itself must not put bytes into the pipe: any send()/write() it makes on the descriptor is the zero-length probe
        for (pb, pt, pci) in call_sites(F, m, lambda ci: ci.kind == "foreign" and ci.symbol in ("send", "write", "sendto")):
            ln = [fold(e) for e in fl.term_arg(pb, 2)]
            res.append((bool(ln) and all(v == 0 for v in ln), "probe-zero-length@%s" % keyname(m0.name),
                        "a %s() made while registering carries no data (zero-length probe): the reader never sees more bytes than deliveries" % pci.symbol, pt["sp"], {"length": ln}))
        # the descriptor is vetted before it is handed to the registry: skipping the O_NONBLOCK switch (whose fcntl also rejects an invalid
        # descriptor) is decided by an accept-list on the probe's outcome — equality edges of tests of the probe's result / its error —,
        # never by "everything else". With those accepting edges removed, no registration is reachable from the probe without passing fcntl.
        from ..conds import switch_edges as _swe
        probes = [pb for (pb, pt, pci) in call_sites(F, m, lambda ci: ci.kind == "foreign" and ci.symbol in ("send", "sendto", "getsockopt", "fstat", "getsockname"))
                  if not m.blocks[pb].get("dead")]
        regs_ = [rb for rb, rt in m.calls() if rt.get("f") is not None and F.inst[rt["f"]].defp.startswith("signal_hook_registry::register") and not m.blocks[rb].get("dead")]
        if probes and regs_ and sf:
            errno_calls = {bb2 for bb2, t2 in m.calls() if re.search(r"(last_os_error|errno_location|__errno)", (t2.get("def") or "") + str(F.inst[t2["f"]].symbol if t2.get("f") is not None else ""))}
            src_calls = set(probes) | errno_calls
            accept = set(); ntests = 0
            for (b2, tgt, lab, exprs, t2) in _swe(m):
                if m.blocks[b2].get("dead"):
                    continue
                for e in exprs:
                    e = deep_strip(e)
                    d_ = deps(m, [e])
                    if not any(("call", c_) in d_ for c_ in src_calls):
                        continue
                    ntests += 1
                    if e[0] == "binop" and e[1] in ("Eq", "Ne"):
                        val = int(lab[3:]) if lab.startswith("sw:") else None
                        is_true = (val is not None and val != 0) or (val is None and [v_ for v_, _ in t2["vals"]] == [0])
                        if (e[1] == "Eq") == is_true:
                            accept.add((b2, tgt))
                    elif e[0] == "binop":
                        accept.add((b2, tgt))           # an ordering test (`res >= 0`): either side counts as explicit
                    elif e[0] == "call" and t2.get("dty") == "bool":
                        nm_ = e[3] or ""
                        val = int(lab[3:]) if lab.startswith("sw:") else None
                        is_true = (val is not None and val != 0) or (val is None and [v_ for v_, _ in t2["vals"]] == [0])
                        if nm_.endswith("::eq") or "PartialEq" in nm_ and nm_.endswith("eq"):
                            if is_true:
                                accept.add((b2, tgt))   # `kind == ErrorKind::WouldBlock` through PartialEq
                        elif nm_.endswith("::ne"):
                            if not is_true:
                                accept.add((b2, tgt))
                        else:
                            accept.add((b2, tgt))       # an opaque predicate: polarity unknown, both sides count as explicit (no verdict from it)
                    elif lab.startswith("sw:"):
                        accept.add((b2, tgt))           # a value edge of a match on the outcome
            sfb_ = {b for b, _ in sf}
            bad_ = []
            from .. import inline as _inl
            m2_ = _inl.assuming(F, m, accept) if accept else m       # accepting edges assumed away, constants (the chosen method) folded again
            for pb in probes:
                if m2_.blocks[pb].get("dead"):
                    continue
                for st0 in m2_.succ(pb, unwind=False):
                    r_ = cfg.reachable(m2_, st0, avoid=sfb_, unwind=False) if st0 not in sfb_ else set()
                    hit = sorted(b for b in set(regs_) & r_ if not m2_.blocks[b].get("dead"))
                    if hit:
                        bad_.append([m2_.term(x)["sp"].split("/")[-1] for x in (cfg.path(m2_, st0, hit[0], avoid=sfb_, unwind=False) or [])][:8])
            res.append((not bad_ and ntests > 0, "probe-accept-list@%s" % keyname(m0.name),
                        "skipping the O_NONBLOCK switch (and its validation of the descriptor) is decided by explicit equality tests of the probe's outcome, "
                        "not by a catch-all", m.term(probes[0])["sp"], {"tests_of_the_probe_outcome": ntests, "registration_reached_by_catch_all": bad_[:2]}))
        clos = [(cb, csi, crv) for (cb, csi, crv) in closure_constructions(m) if crv["def"] in action_defs]
        if not clos:
            raise AnchorLost("the action closure registered by %s" % m0.name)
        for (bb, si, rv) in adt_constructions(m, owner_type(F)):
            if m.blocks[bb].get("dead"):
                continue
            meth = method_of_construction(F, fl, rv, (bb, si), mef)
            is_write = (not meth) or any(not (e[0] == "agg" and e[1][0] == "adt" and e[1][2] == "Send") and
                                         not (e[0] == "const" and e[4] == "Send") for e in meth)
            n_sites += 1
            if not is_write:
                res.append((True, "wakefd-send@%s" % keyname(m0.name), "WakeFd built with the send method (MSG_DONTWAIT per call)", rv.get("sp"), None))
                continue
            # paths on which the method is known to be Send (a later test of the same value) need no O_NONBLOCK: drop those edges
            drop = set()
            from ..conds import switch_edges
            for (b2, tgt, lab, exprs, t2) in switch_edges(m):
                for e in exprs:
                    e = deep_strip(e)
                    if e[0] == "discr" and any(deep_strip(e[1]) == mm or is_field(deep_strip(e[1]), mef) for mm in meth):
                        # which variant index is Send?
                        send_vi = _variant_index(F, method_type(F), "Send")
                        val = int(lab[3:]) if lab.startswith("sw:") else None
                        if val is not None and val == send_vi:
                            drop.add((b2, tgt))
                        elif val is None:
                            # the otherwise edge stands for Send when every other variant has its own edge (`if let Write = method {..}`)
                            allv = {v_.get("discr", i_) for i_, v_ in enumerate(F.adt(method_type(F))["variants"])}
                            if allv - {v for v, _ in t2["vals"]} == {send_vi}:
                                drop.add((b2, tgt))
            for (cb, csi, crv) in clos:
                if m.blocks[cb].get("dead") or cb not in cfg.reachable(m, bb, unwind=False):
                    continue
                sfb = {b for b, _ in sf}
                r = cfg.reachable_without_edges(m, bb, drop, avoid=sfb)
                through = cb not in r
                leak = []
                for (sbb, st) in sf:
                    tests, fail = failure_edges(m, sbb, -1)
                    if not tests:
                        leak.append("result of fcntl(F_SETFL) is never examined")
                    for (s_, d) in fail:
                        if cb == d or cb in cfg.reachable(m, d, unwind=False):
                            leak.append("action built on the failure path of fcntl(F_SETFL)")
                res.append((through and bool(sf) and not leak, "wakefd-write@%s" % keyname(m0.name),
                            "a WakeFd using write() reaches the action closure only through a successful O_NONBLOCK switch",
                            m.blocks[bb]["s"][si]["sp"], {"passes_setfl": through, "setfl_calls": len(sf), "result": leak}))
    if n_sites < 1 or n_setfl < 1:
        raise AnchorLost("expected WakeFd construction(s) and an F_SETFL call in the registering entry point, found %d / %d" % (n_sites, n_setfl))
    # a plain write() in the wake path happens only under a method value that is the `method` recorded in a WakeFd (the O_NONBLOCK switch above
    # vouches for those); frames that receive the method as a parameter are checked at their callers
    frames = wake_frames(F)
    mparams = {}
    for m, n in frames:
        for (bb, t, ci) in call_sites(F, n, lambda ci: ci.kind == "foreign" and ci.symbol == "write"):
            fdv = [fold(e) for e in flow(n).term_arg(bb, 0)]
            if fdv and all(v == 2 for v in fdv):
                continue
            ctl = []
            for (ce, inf, sb) in __import__("engine.conds", fromlist=["facts_at"]).facts_at(n, bb):
                if ce[0] == "discr":
                    base = deep_strip(ce[1])
                    while base[0] in ("ref", "deref"):
                        base = deep_strip(base[1])
                    ctl.append(base)
            good = [b_ for b_ in ctl if is_field(b_, mef) or b_[0] == "param"]
            res.append((bool(good), "write-under-recorded-method@%s" % keyname(m.name), "write() in the wake path is selected by the method recorded in the WakeFd", t["sp"],
                        {"controlling_values": [show(b_) for b_ in ctl]}))
            for b_ in good:
                if b_[0] == "param":
                    mparams.setdefault(m.id, set()).add(b_[1])
    for m, n in frames:
        for bb, t in n.calls():
            if t.get("f") in mparams and t["f"] != m.id:
                for k in mparams[t["f"]]:
                    ex = [deep_strip(e) for e in flow(n).term_arg(bb, k - 1)]
                    okm = bool(ex) and all((e[0] == "agg" and e[1][0] == "adt" and e[1][2] == "Send") or (e[0] == "const" and e[4] == "Send") or
                                           is_field(e, mef) or (e[0] == "param" and m.kind != "closure") for e in ex)
                    res.append((okm, "wake-caller@%s" % keyname(m.name), "caller passes the constant send method or the method recorded in its WakeFd", t["sp"],
                                {"method": [show(e) for e in ex]}))
    _b_cache[id(F)] = res
    return res


def _variant_index(F, adt, name):
    a = F.adt(adt)
    for i, v in enumerate(a["variants"]):
        if v["name"] == name:
            return v.get("discr", i)
    raise AnchorLost("%s::%s" % (adt, name))


def nonblock_write_established(ctx, F, m, bb):
    """used by C03.a for a write() call site in the dispatch cone: fine if the frame belongs to the wake path (a wake frame or a helper
    inlined into one) and C13.b holds"""
    from .. import inline
    members = set()
    for fr, n in wake_frames(F):
        members.add(fr.id); members |= set(inline.all_inlined(n))
    if m.id not in members:
        return False, "write() outside the self-pipe wake path"
    res = c13b(F)
    bad = [r for r in res if not r[0]]
    return (not bad), ({"failed": [r[1] for r in bad]} if bad else None)


def _const_len(n, e):
    """constant value of a length expression: a literal, or `.len()` of a fixed-size array"""
    v = fold(e)
    if v is not None:
        return v
    e = deep_strip(e)
    if e[0] == "call" and (e[3] or "").endswith("::len"):
        t = n.term(e[1])
        for a in t["args"][:1]:
            if a["k"] in ("copy", "move"):
                mm = re.search(r"\[u8; (\d+)\]", n.local_ty(a["p"]["l"]))
                if mm:
                    return int(mm.group(1))
        for x in flow(n).term_arg(e[1], 0):
            x = deep_strip(x)
            while x[0] in ("ref", "cast", "deref"):
                x = deep_strip(x[1])
            if x[0] == "const" and x[3]:
                mm = re.search(r"\[u8; (\d+)\]", x[3])
                if mm:
                    return int(mm.group(1))
    return None


def rule_a(ctx):
    F = ctx.F
    rid = "C13.a"
    ctx.rule(rid, "every frame of the wake path (action closures, write-end trait methods, pipe::wake — helpers inlined) makes exactly one "
                  "write()/send() — or one call of such a frame — on every path, outside any loop; length is the constant 1, send carries MSG_DONTWAIT", floor=6)
    frames = wake_frames(F)
    WR = lambda ci: ci.kind == "foreign" and ci.symbol in ("write", "send", "sendto", "sendmsg", "writev")
    wakers = set()
    for m, n in frames:
        if [1 for (bb, t, ci) in call_sites(F, n, WR) if [fold(e) for e in flow(n).term_arg(bb, 0)] != [2]]:
            wakers.add(m.id)
    grow = True
    while grow:
        grow = False
        for m, n in frames:
            if m.id in wakers:
                continue
            for bb, t in n.calls():
                f = t.get("f")
                if f is None:
                    continue
                c = F.inst[f]
                tg = [f] if c.kind != "virtual" else [tid for tid, _ in (c.impls or [])]
                if tg and any(x in wakers for x in tg):
                    wakers.add(m.id); grow = True; break
    nfr = 0
    for m, n in frames:
        if m.id not in wakers:
            continue
        nfr += 1
        ctx.fn(m)
        fl = flow(n)
        blocks = []
        for (bb, t, ci) in call_sites(F, n, WR):
            if [fold(e) for e in fl.term_arg(bb, 0)] == [2]:
                continue          # message before abort
            blocks.append(bb)
            ln = [_const_len(n, e) for e in fl.term_arg(bb, 2)]
            ctx.check(bool(ln) and all(v == 1 for v in ln), rid, "wake:len:%s@%s" % (ci.symbol, keyname(m.name)), "%s length is the constant 1" % ci.symbol, t["sp"],
                      {"length": [show(e) for e in fl.term_arg(bb, 2)]})
            if ci.symbol == "send":
                fv = [fold(e) for e in fl.term_arg(bb, 3)]
                ctx.check(bool(fv) and all(v is not None and v & MSG_DONTWAIT for v in fv), rid, "wake:dontwait@%s" % keyname(m.name),
                          "send carries MSG_DONTWAIT", t["sp"], {"flags": [show(e) for e in fl.term_arg(bb, 3)]})
            elif ci.symbol != "write":
                ctx.bad(rid, "wake:prim:%s" % ci.symbol, "unexpected write primitive %s" % ci.symbol, t["sp"])
            ctx.analysed["call_sites"] += 1
        for bb, t in n.calls():
            f = t.get("f")
            if f is None or f == m.id:
                continue
            c = F.inst[f]
            tg = [f] if c.kind != "virtual" else [tid for tid, _ in (c.impls or [])]
            if tg and all(x in wakers for x in tg):
                blocks.append(bb)
        okk, why = exactly_once(n, blocks)
        ctx.check(okk, rid, "wake-chain:%s" % keyname(m.name), "%s wakes exactly once per invocation" % m.name.split("::")[-1][:70], m.span, why)
    if nfr < 4:
        raise AnchorLost("expected >= 4 frames on the wake path, found %d" % nfr)
    # the action a self-pipe registration hands to the registry is one of those frames (an action that no longer wakes is not "a frame
    # without a wake", it is the property gone)
    c13b(F)
    acts = _pipe_actions.get(id(F)) or set()
    if not acts:
        raise AnchorLost("the action closure handed to the registry by the self-pipe registration")
    for d in sorted(acts):
        fr = [m for m, n in frames if m.kind == "closure" and (m.defp == d or ("{closure@%s}" % d) in m.name)]
        ctx.check(bool(fr) and all(m.id in wakers for m in fr), rid, "registered-action-wakes:%s" % keyname(d), "the action registered for a self-pipe reaches a "
                  "one-byte write()/send() (it is a frame of the wake path)", fr[0].span if fr else None, {"frames": [m.name[:120] for m in fr]})


def rule_b(ctx):
    rid = "C13.b"
    ctx.rule(rid, "a WakeFd using write() reaches the action closure only through a successful set_flags whose F_SETFL "
                  "argument contains O_NONBLOCK; callers of the primitive pass Send or the recorded method", floor=3)
    for (okk, key, what, where, detail) in c13b(ctx.F):
        ctx.check(okk, rid, key, what, where, detail)


def rule_c(ctx):
    F = ctx.F
    rid = "C13.c"
    ctx.rule(rid, "the owned descriptor is closed only by Drop for WakeFd; the owner type is never cloned/forgotten/bitwise-read; "
                  "register_raw owns the descriptor before any exit and drops or moves the owner on every path", floor=4)
    W = owner_type(F)
    drop = F.one(name_re=r"^<%s as core::ops::drop::Drop>::drop$" % re.escape(W), what="Drop for the descriptor owner")
    ctx.fn(drop)
    fdf, mef = wakefd_fields(F)
    n_close = 0
    for m in F.inst:
        if not (m.local and m.body is not None) or is_user_code(m):
            continue
        for (bb, t, ci) in call_sites(F, m, foreign("close")):
            ex = flow(m).term_arg(bb, 0)
            owned = any(mentions(e, lambda x: is_field(x, fdf)) for e in ex)
            raw_param = m.defp == "signal_hook::low_level::pipe::register_raw" and any(mentions(e, lambda x: x[0] == "param") for e in ex)
            in_cone = m.id in dispatch_cone(F).parent
            if owned or raw_param or in_cone:
                n_close += 1
                ctx.check(m.id == drop.id, rid, "close@%s" % keyname(m.name),
                          "close() of the wake descriptor happens only in Drop for WakeFd", t["sp"], {"fd": [show(e) for e in ex]})
    ctx.check(n_close >= 1, rid, "close:exists", "Drop for WakeFd closes the descriptor (%d site)" % n_close, drop.span,
              "the owner no longer closes its descriptor")
    c = call_sites(F, drop, foreign("close"))
    okk, why = exactly_once(drop, [b for b, _, _ in c]) if c else (False, "no close")
    ctx.check(okk, rid, "close:once", "Drop for WakeFd closes exactly once on every path", drop.span, why)
    esc = type_instances(F, W, [r"^core::mem::forget::<", r"ManuallyDrop::<.*>::new$", r"^core::ptr::read(_volatile|_unaligned)?::<",
                                     r" as core::clone::Clone>::clone", r"^core::mem::transmute_copy"])
    esc = [i for i in esc if re.search(r"(forget|new|read\w*|transmute_copy)::<[^>]*%s|<%s as core::clone::Clone>" % (re.escape(W.split("::")[-1]), re.escape(W)), i.name)
           or i.name.startswith("core::mem::manually_drop::ManuallyDrop::<" + W)]
    ctx.check(not esc, rid, "owner:no-escape", "no forget/ManuallyDrop/ptr::read/Clone instance on WakeFd in the monomorphic program",
              None, [i.name for i in esc])
    rr0, rr = owner_builders(F)[0]
    ctx.fn(rr0)
    aggs = [(bb, si, rv) for (bb, si, rv) in adt_constructions(rr, owner_type(F)) if not rr.blocks[bb].get("dead")]
    ab = {bb for bb, _, _ in aggs}
    r = cfg.reachable(rr, 0, avoid=ab, unwind=False)
    ctx.check(not (r & set(rr.exits())) and aggs, rid, "register_raw:owns-before-exit",
              "every normal exit of register_raw is preceded by the construction of the owning WakeFd", rr0.span,
              "a return is reachable without constructing the owner (descriptor would leak on rejection)")
    # after construction: every path to return moves the owner into the action closure or drops it
    clos = {bb for bb, _, _ in closure_constructions(rr)}
    drops = {bb for bb, t in rr.drops() if owner_type(F) in t["ty"]}
    for bb in ab:
        r = cfg.reachable_after(rr, bb, avoid=clos | drops, unwind=False) | ({bb} - clos)
        bad = (r & set(rr.exits()))
        # the aggregate block itself may contain the closure construction
        ctx.check(not bad, rid, "register_raw:owner-dropped-or-moved",
                  "after constructing the owner every path to return moves it into the action or drops it (RAII close)",
                  rr.term(bb)["sp"], "a path to return neither moves nor drops the WakeFd")


def wake_frames(F):
    """frames of the dispatch cone in which a wake is visible after normalisation: the action closures and every workspace function that
    stays a call in normal forms (trait-object methods, `pipe::wake`, ..) — each with its normal form. [(frame, normal form)]"""
    from .nf import NF, keep_for
    cone = dispatch_cone(F)
    roots = {(r.id if hasattr(r, "id") else r) for r in cone.roots}
    out = []
    h_id = None
    try:
        from ..anchors import handler
        h_id = handler(F).id
    except AnchorLost:
        pass
    for m in cone.members:
        if not (m.local and m.body is not None) or is_user_code(m) or m.id == h_id:
            continue
        if m.id in roots or (m.crate == "signal_hook" and keep_for(F, m)(m)):
            out.append((m, NF(F, m, cross=True)))
    return out


def fd_param_of(F, n):
    """parameter numbers of a normal form that reach the descriptor argument of a one-byte write/send: {param}"""
    out = set()
    for (bb, t, ci) in call_sites(F, n, lambda ci: ci.kind == "foreign" and ci.symbol in ("write", "send")):
        for e in flow(n).term_arg(bb, 0):
            e = deep_strip(e)
            if e[0] == "param":
                out.add(e[1])
    return out


def rule_d(ctx):
    """never written to after close: the descriptor a wake writes to is obtained, at wake time, from an owner the action itself keeps
    alive (as_raw_fd() on a captured owning object, or the descriptor field of the captured WakeFd) — not a bare number captured at registration"""
    F = ctx.F
    rid = "C13.d"
    ctx.rule(rid, "every descriptor reaching write()/send() in the dispatch cone comes from an owner captured by the action (AsRawFd::as_raw_fd "
                  "of a captured object / the WakeFd's descriptor field), judged in the normal form of every frame that stays visible; a raw integer "
                  "captured at registration time is refused", floor=2)
    fdf, mef = wakefd_fields(F)
    frames = wake_frames(F)
    pmap = {m.id: fd_param_of(F, n) for m, n in frames}
    n_sites = 0
    for m, n in frames:
        fl = flow(n)
        uses = []
        for (bb, t, ci) in call_sites(F, n, lambda ci: ci.kind == "foreign" and ci.symbol in ("write", "send")):
            # the message-before-abort write(2, ..) is not a wake
            fdv = [fold(e) for e in fl.term_arg(bb, 0)]
            if fdv and all(v == 2 for v in fdv):
                continue
            uses.append((bb, t, 0))
        for bb, t in n.calls():
            if t.get("f") in pmap and pmap[t["f"]] and t["f"] != m.id:
                for k in pmap[t["f"]]:
                    uses.append((bb, t, k - 1))
        for (bb, t, ai) in uses:
            n_sites += 1
            ctx.fn(m)
            ex = [deep_strip(e) for e in fl.term_arg(bb, ai)]
            okk = bool(ex); how = []
            for x in ex:
                while x[0] == "cast":
                    x = deep_strip(x[1])
                if x[0] == "call" and ((x[3] or "").endswith("AsRawFd::as_raw_fd") or _returns_live_fd(F, n, x)):
                    how.append("as_raw_fd() at wake time"); continue
                if is_field(x, fdf):
                    how.append("WakeFd's descriptor field"); continue
                if x[0] == "param" and m.kind != "closure":
                    how.append("parameter (checked at the callers)"); continue
                okk = False; how.append("captured/raw value: " + show(x))
            ctx.check(okk, rid, "fd-from-owner@%s" % keyname(m.name), "%s passes a descriptor obtained from a live owner" % m.name.split("::")[-1][:60], t["sp"],
                      {"fd": how, "why": "the owner may be closed (and the number reused) while the action is still registered"})
    if n_sites < 2:
        raise AnchorLost("descriptor uses of the wake path in the dispatch cone: %d" % n_sites)


def _returns_live_fd(F, c, x):
    """call of a workspace helper on `self`/a captured owner that itself returns as_raw_fd() of it"""
    if x[2] is None:
        return False
    f = F.inst[x[2]]
    if f.kind == "virtual":
        tg = [F.inst[t] for t, _ in f.impls or []]
    else:
        tg = [f]
    okk = bool(tg)
    for g in tg:
        if g.body is None:
            return False
        rets = [deep_strip(r) for rb in g.exits() for r in flow(g).place({"l": 0, "p": []}, (rb, len(g.stmts(rb))))]
        if not rets or not all(r[0] == "call" and (r[3] or "").endswith("AsRawFd::as_raw_fd") for r in rets):
            okk = False
    return okk


def rule_e(ctx):
    """one wake action per (instance, signal): a second registration of the same write end would write two bytes per delivery and survive the
    instance (shared with C12.f)"""
    from .C12 import rule_f
    rule_f(ctx, rid="C13.e")


def rule_f(ctx):
    """the descriptor handed to register_raw is owned (wrapped in the closing owner) before anything that can panic: a refusal by panic must
    release it like every other rejection"""
    F = ctx.F
    rid = "C13.f"
    ctx.rule(rid, "in register_raw no explicit panic site (assert / panic / documented-panicking call) is reachable before the owning WakeFd exists "
                  "(unwinding before that point leaks the descriptor)", floor=1)
    from .C03 import panic_sites, undischarged_sites
    rr0, rr = owner_builders(F)[0]
    ctx.fn(rr0)
    aggs = {bb for bb, _, _ in adt_constructions(rr, owner_type(F)) if not rr.blocks[bb].get("dead")}
    if not aggs:
        raise AnchorLost("owner construction in register_raw")
    early = cfg.reachable(rr, 0, avoid=aggs, unwind=False)
    bad = []
    for site in panic_sites(F, rr):
        kind, key, bb, sp, info = site
        if bb in early:
            bad.append({"site": key, "where": sp})
    for bb in sorted(early):
        t = rr.term(bb)
        if t["k"] == "call" and t.get("f") is not None:
            c = F.inst[t["f"]]
            if c.local and c.body is not None:
                und, _ = undischarged_sites(ctx, F, [c])
                for (fm, s, ch) in und[:2]:
                    bad.append({"call": c.name[:120], "panic_site": s[1], "where": s[3]})
    ctx.check(not bad, rid, "no-panic-before-owner", "nothing can panic in register_raw before the descriptor is wrapped in its closing owner", rr0.span,
              {"panic_sites_before_owner": bad, "why": "the refusal of a forbidden signal must release the descriptor (C14): a panic before WakeFd exists leaks it"})


def run(ctx):
    from .. import fixtures
    ctx.guarded("C13.e", rule_e)
    ctx.guarded("C13.f", rule_f)
    ctx.guarded("C13.FX", lambda c: fixtures.run(c, ['escapes']))
    ctx.guarded("C13.d", rule_d)
    ctx.guarded("C13.a", rule_a)
    ctx.guarded("C13.b", rule_b)
    ctx.guarded("C13.c", rule_c)
    ctx.note("not decided: byte-count inequalities; the descriptor-kind detection logic (value-level match on send()'s errno)")
    ctx.assume("closing after the registry's grace period is C01; rejection by a forbidden signal drops the action by unwinding (C14.b)")
