"""C01 — removal is quiescent; snapshots freed after the barrier, outside any handler (structural part)."""
import re
from .. import cfg
from ..anchors import handler, halflocks, dispatch_cone, action_dyn, is_user_code
from ..atomics import sites, recv_field, at_least, ordering_names
from ..facts import strip_generics, keyname, AnchorLost
from ..flow import flow, deep_strip, strip, show, mentions, fold
from .util import call_sites, exactly_once, adt_constructions, escapes

HL = "signal_hook_registry::half_lock::HalfLock"
RG = "signal_hook_registry::half_lock::ReadGuard"
WG = "signal_hook_registry::half_lock::WriteGuard"


_F = [None]


class Roles:
    """fields of the half lock located by type"""

    def __init__(self, F):
        _F[0] = F
        a = F.adt(HL)
        fs = a["variants"][0]["fields"]
        self.ptr = [f["name"] for f in fs if re.match(r"^core::sync::atomic::Atomic<\*mut \w+>$", f["ty"])]
        self.slots = [f["name"] for f in fs if re.match(r"^\[core::sync::atomic::Atomic<usize>; \d+\]$", f["ty"])]
        self.gen = [f["name"] for f in fs if f["ty"] == "core::sync::atomic::Atomic<usize>"]
        self.mutex = [f["name"] for f in fs if f["ty"].startswith("std::sync::poison::mutex::Mutex<")]
        for nm, v in (("snapshot pointer (AtomicPtr<T>)", self.ptr), ("reader slots ([AtomicUsize; N])", self.slots),
                      ("generation (AtomicUsize)", self.gen), ("writer mutex", self.mutex)):
            if len(v) != 1:
                raise AnchorLost("half lock: cannot identify the %s field by type: %s" % (nm, v))
        self.ptr, self.slots, self.gen, self.mutex = self.ptr[0], self.slots[0], self.gen[0], self.mutex[0]
        self.n = int(re.search(r"; (\d+)\]", [f["ty"] for f in fs if f["name"] == self.slots][0]).group(1))


def hl_methods(F, T):
    """workspace functions instantiated for HalfLock<T> / its guards"""
    out = []
    for i in F.inst:
        if i.local and i.body is not None and i.crate == "signal_hook_registry" and \
                ("half_lock::HalfLock::<%s>" % T in i.name or "half_lock::WriteGuard::<'_, %s>" % T in i.name or
                 "half_lock::ReadGuard<'_, %s>" % T in i.name or "half_lock::HalfLock<%s>" % T in i.name):
            out.append(i)
    return out


def on_field(site, field):
    bt, f = recv_field(site)
    if f == field and bt is not None and HL in bt:
        return True
    # the atomic may be selected by a private helper returning a reference into the lock (`self.slot_for(gen)`)
    F = _F[0]
    if F is None:
        return False
    for e in site.recv:
        x = e
        while x[0] in ("ref", "deref"):
            x = deep_strip(x[1])
        if x[0] == "call" and x[2] is not None:
            c = F.inst[x[2]]
            if c.local and c.body is not None and c.crate == "signal_hook_registry":
                rets = [deep_strip(r) for rb in c.exits() for r in flow(c).place({"l": 0, "p": []}, (rb, len(c.stmts(rb))))]
                if rets and all(mentions(r, lambda y: y[0] == "field" and y[2] == field and HL in (y[4] or "")) for r in rets):
                    return True
    return False


def closures_of(F, m):
    """closure instances defined inside m (same monomorphic parent)"""
    return [i for i in F.inst if i.kind == "closure" and i.body is not None and i.name.startswith(m.name + "::{closure#")]


def reads_slots(F, m, R):
    """does m sample reader slots: it borrows the slots field (as a whole or by index) and loads an AtomicUsize — in its own
    body or in a closure defined in it (e.g. passed to an iterator adapter)"""
    whole = False; idx = []
    for bl in m.blocks:
        for s in bl["s"]:
            if s["k"] != "assign":
                continue
            r = s["r"]
            pl = r.get("p") if r["k"] in ("ref", "rawptr") else (r["o"].get("p") if r["k"] == "use" and r["o"].get("p") else None)
            if not pl:
                continue
            for n, p in enumerate(pl["p"]):
                if p["k"] == "field" and p["n"] == R.slots and HL in (p.get("bt") or ""):
                    rest = pl["p"][n + 1:]
                    if not rest:
                        whole = True
                    for q in rest:
                        if q["k"] == "cindex":
                            idx.append(q["i"])
                        elif q["k"] == "index":
                            idx.append(("var", q["l"]))
    loads = [s for s in sites(F, m) if s.op == "load" and s.aty == "usize"]
    for c in closures_of(F, m):
        loads += [s for s in sites(F, c) if s.op == "load" and s.aty == "usize"]
    return whole, idx, loads


SHORT_CIRCUIT = ("all", "any", "find", "find_map", "position", "rposition", "try_for_each", "try_fold", "take_while", "skip_while", "map_while",
                 "scan", "is_sorted_by", "eq_by", "cmp_by")


def short_circuit_sampling(F, m, R):
    """slot loads that sit in a closure handed to a short-circuiting iterator combinator: [(combinator, span)]"""
    out = []
    for c in closures_of(F, m):
        if not [s for s in sites(F, c) if s.op == "load" and s.aty == "usize"]:
            continue
        for bb, t in m.calls():
            for ai, a in enumerate(t["args"]):
                for e in flow(m).term_arg(bb, ai):
                    e = deep_strip(e)
                    if e[0] == "agg" and e[1][0] == "closure" and e[1][1] == c.defp:
                        name = (t.get("def") or "").split("::")[-1]
                        if name in SHORT_CIRCUIT:
                            out.append((name, t["sp"]))
    return out


def rule_a(ctx, R, T):
    F = ctx.F
    rid = "C01.a"
    sw = []
    for m in hl_methods(F, T):
        for s in sites(F, m):
            if s.op == "swap" and on_field(s, R.ptr):
                sw.append(s)
    if len(sw) != 1:
        raise AnchorLost("HalfLock<%s>: expected exactly one swap of the snapshot pointer, found %d" % (T, len(sw)))
    s = sw[0]; m = s.inst
    ctx.fn(m)
    raws = call_sites(F, m, lambda c: c.defp == "alloc::boxed::Box::<T>::from_raw")
    raws = [(bb, t, c) for (bb, t, c) in raws if any(mentions(e, lambda x: x[0] == "call" and x[1] == s.bb) for e in flow(m).term_arg(bb, 0))]
    key = "writer-order:%s" % T
    if not raws:
        # the old box may be handed to a helper; then the helper call is the "free"
        ctx.bad(rid, key, "the pointer returned by the swap never reaches Box::from_raw in %s (old snapshot leaked or freed elsewhere)" % m.name, s.sp)
        return None
    # free points: where the rebuilt box is actually dropped (a Drop terminator on it, or mem::drop of it) on non-cleanup paths
    frees = []
    for (rb, rt, rc) in raws:
        fl = flow(m)
        for bb, bl in enumerate(m.blocks):
            if bl["cleanup"]:
                continue
            t = bl["t"]
            if t["k"] == "drop" and "alloc::boxed::Box<" in t["ty"]:
                if any(mentions(e, lambda x: x[0] == "call" and x[1] == rb) for e in fl.term_place(bb, t["p"])):
                    frees.append((bb, t, rc))
            if t["k"] == "call" and (t.get("def") or "") == "core::mem::drop" and t["args"]:
                if any(mentions(e, lambda x: x[0] == "call" and x[1] == rb) for e in fl.term_arg(bb, 0)):
                    frees.append((bb, t, rc))
        if not [f for f in frees]:
            frees.append((rb, rt, rc))      # dropped implicitly at the from_raw site (temporary): the site itself is the free point
    barrier_calls = []
    for bb, t in m.calls():
        if t.get("f") is None:
            continue
        c = F.inst[t["f"]]
        if not (c.local and c.body is not None):
            continue
        par = F.reach([c])
        for x in par:
            xi = F.inst[x]
            if xi.body is None or not xi.local:
                continue
            whole, idx, loads = reads_slots(F, xi, R)
            if (whole or idx) and loads:
                barrier_calls.append(bb); break
    for (fb, ft, fc) in frees:
        okk, leak = cfg.every_path_passes(m, s.bb, [fb], barrier_calls)
        # the barrier must have *completed*: the free is reached through its return edge, not its unwind edge
        via_unwind = any(fb in cfg.reachable_after(m, b, labels=["unw"]) and
                         fb not in cfg.reachable_after(m, b, labels=["ret"]) for b in barrier_calls)
        ctx.check(okk and barrier_calls and not via_unwind, rid, key,
                  "old snapshot of HalfLock<%s> is freed only after the completed reader barrier that follows the pointer swap" % T,
                  ft["sp"], {"swap": s.sp, "barrier_calls_between": [m.term(b)["sp"] for b in barrier_calls],
                             "path_without_barrier": cfg.path(m, s.bb, fb, avoid=set(barrier_calls)) if not okk else None})
    return m, s, barrier_calls


def rule_b(ctx, R, T):
    F = ctx.F
    rid = "C01.b"
    readers = [m for m in hl_methods(F, T) if adt_constructions(m, RG)]
    if len(readers) != 1:
        raise AnchorLost("HalfLock<%s>: expected exactly one function constructing the read guard, found %s" % (T, [r.name for r in readers]))
    m = readers[0]
    ctx.fn(m)
    ss = sites(F, m)
    inc = [s for s in ss if s.op == "fetch_add" and on_field(s, R.slots)]
    lds = [s for s in ss if s.op == "load" and on_field(s, R.ptr)]
    key = "reader-order:%s" % T
    if len(inc) != 1 or len(lds) != 1:
        ctx.bad(rid, key, "read(): expected one reader-count increment and one snapshot-pointer load, found %d / %d" % (len(inc), len(lds)), m.span,
                "loading the pointer twice (or not counting) breaks the reader protocol")
        return m, inc, lds
    dom = cfg.dominators(m)
    ctx.check(inc[0].bb in dom[lds[0].bb] and inc[0].bb != lds[0].bb, rid, key,
              "reader increments its slot counter before it loads the snapshot pointer (HalfLock<%s>)" % T, lds[0].sp,
              {"increment": inc[0].sp, "pointer_load": lds[0].sp, "problem": "the increment does not dominate the load"})
    (abb, asi, rv) = adt_constructions(m, RG)[0]
    fl = flow(m)
    fields = rv["fields"]
    data_ok = slot_ok = False
    slot_field = None
    for fi, fname in enumerate(fields):
        ex = [deep_strip(e) for e in fl.operand(rv["ops"][fi], (abb, asi))]
        if all(mentions(e, lambda x: x[0] == "call" and x[1] == lds[0].bb) for e in ex):
            data_ok = True
        if ex and all(any(e == r for r in inc[0].recv) for e in ex):
            slot_ok = True; slot_field = fname
    ctx.check(data_ok and slot_ok, rid, "guard-binding:%s" % T, "the guard is built from that very pointer and that very slot reference", rv.get("sp") or m.span,
              {"data_from_load": data_ok, "slot_is_incremented_one": slot_ok})
    return m, inc, lds, slot_field


def rule_c(ctx, R, T, slot_field):
    F = ctx.F
    rid = "C01.c"
    drops = [i for i in F.inst if i.local and i.body is not None and i.name == "<%s<'_, %s> as core::ops::drop::Drop>::drop" % (RG, T)]
    if len(drops) != 1:
        raise AnchorLost("Drop for ReadGuard<%s>" % T)
    d = drops[0]
    ctx.fn(d)
    ss = sites(F, d)
    dec = [s for s in ss if s.op == "fetch_sub"]
    okk = len(dec) == 1 and len(ss) == 1
    why = None
    if okk:
        e1, why1 = exactly_once(d, [dec[0].bb])
        amt = [fold(e) for e in flow(d).term_arg(dec[0].bb, 1)]
        bt, f = recv_field(dec[0])
        okk = e1 and amt == [1] and f == slot_field and bt and RG in bt
        why = {"once": why1, "amount": amt, "field": f, "expected_field": slot_field}
    ctx.check(okk, rid, "release:%s" % T, "dropping the guard decrements exactly once, by 1, the counter reference stored at construction", d.span,
              why or {"atomic_ops_in_drop": [repr(s) for s in ss]})
    # guards are constructed only in read()
    others = [i.name for i in F.inst if i.local and i.body is not None and adt_constructions(i, RG) and "::read" not in i.name
              and not re.search(r"half_lock::HalfLock::<.*>::\w+$", i.name)]
    ctx.check(not others, rid, "guard:single-constructor", "read guards are constructed only by the half lock itself", None, others)
    return dec


def rule_d(ctx, R, T, reader, inc, lds, swap_site, dec):
    F = ctx.F
    rid = "C01.d"

    def chk(site, minimum, role, what):
        names = site.orders[0] if site.orders else []
        ctx.check(at_least(names, minimum, role), rid, "ordering:%s:%s" % (what, T),
                  "%s is %s (minimum %s; store-buffering pair, see oracle/ordering_minima.md)" % (what, "/".join(names), minimum), site.sp,
                  {"declared": names, "minimum": minimum})
    if inc:
        chk(inc[0], "SeqCst", "rmw", "reader slot fetch_add")
    if lds:
        chk(lds[0], "SeqCst", "load", "reader snapshot-pointer load")
    chk(swap_site, "SeqCst", "rmw", "writer snapshot-pointer swap")
    if dec:
        chk(dec[0], "Release", "rmw", "guard release fetch_sub")
    # writer-side slot loads (barrier)
    n = 0
    for m in hl_methods(F, T):
        if m.id == reader.id:
            continue
        whole, idx, loads = reads_slots(F, m, R)
        if not (whole or idx):
            continue
        for s in loads:
            n += 1
            chk(s, "SeqCst", "load", "writer reader-slot load")
    if n == 0:
        raise AnchorLost("no writer-side load of the reader slots found for HalfLock<%s>" % T)
    # remaining atomic accesses: any valid ordering
    for m in hl_methods(F, T):
        for s in sites(F, m):
            if on_field(s, R.gen) or (s.op == "load" and on_field(s, R.ptr) and m.id != reader.id):
                names = s.orders[0] if s.orders else []
                ctx.check(names and not any(x.startswith("?") for x in names), rid, "ordering:aux:%s:%s@%s" % (s.op, T, keyname(m.name).split("::")[-1]),
                          "auxiliary access (%s) has a constant ordering %s (minimum Relaxed)" % (s.op, names), s.sp, names)


def rule_e(ctx, R, T, reader):
    F = ctx.F
    rid = "C01.e"
    found = 0
    for m in hl_methods(F, T):
        if m.id == reader.id:
            continue
        whole, idx, loads = reads_slots(F, m, R)
        if not loads or not (whole or idx):
            continue
        found += 1
        const_idx = sorted({i for i in idx if isinstance(i, int)})
        okk = whole or const_idx == list(range(R.n))
        ctx.check(okk, rid, "barrier-covers-all:%s" % T, "the writer-side wait reads the whole reader-slot array (all %d slots)" % R.n, m.span,
                  {"whole_array_borrow": whole, "indices": [str(i) for i in idx], "problem": "only some reader slots are waited for"})
        sc = short_circuit_sampling(F, m, R)
        ctx.check(not sc, rid, "every-slot-every-pass:%s" % T, "every pass samples every reader slot (the loads are not under a short-circuiting iterator combinator)", m.span,
                  {"short_circuiting": sc, "why": "a slot that is skipped while another one is busy can never be recorded as idle; with overlapping deliveries the writer then spins forever"})
    if not found:
        raise AnchorLost("barrier function for HalfLock<%s>" % T)


def rule_h(ctx, R, T, swap_fn, swap_site):
    """every sampling of the reader slots on the writer side happens after the pointer swap: a zero observed before the swap says
    nothing about readers that may still pick up the old pointer"""
    F = ctx.F
    rid = "C01.h"
    readers = {m.id for m in hl_methods(F, T) if adt_constructions(m, RG)}
    samplers = []
    for m in hl_methods(F, T):
        if m.id in readers:
            continue
        whole, idx, loads = reads_slots(F, m, R)
        if (whole or idx) and loads:
            samplers.append(m)
    if not samplers:
        raise AnchorLost("no writer-side sampling of the reader slots for HalfLock<%s>" % T)
    callers = F.callers()
    dom = cfg.dominators(swap_fn)
    memo = {}

    def post_swap_only(fid, depth=0):
        """(ok, witness) — is every call chain into fid rooted at a call site that the swap dominates?"""
        if fid in memo:
            return memo[fid]
        memo[fid] = (True, None)     # cycles: optimistic
        cs = [(c, k, bb) for (c, k, bb) in callers.get(fid, []) if k == "call" and F.inst[c].local]
        if not cs:
            memo[fid] = (False, "%s has no caller" % F.inst[fid].name); return memo[fid]
        for (c, k, bb) in cs:
            if c == swap_fn.id:
                if not (swap_site.bb in dom[bb] and swap_site.bb != bb):
                    memo[fid] = (False, "%s calls %s at %s, which the pointer swap does not dominate" % (F.inst[c].name, F.inst[fid].name.split("::")[-1], F.inst[c].term(bb)["sp"]))
                    return memo[fid]
            else:
                ok, w = post_swap_only(c, depth + 1)
                if not ok:
                    memo[fid] = (False, "%s is called from %s at %s; %s" % (F.inst[fid].name.split("::")[-1], F.inst[c].name, F.inst[c].term(bb)["sp"], w)) \
                        if c != swap_fn.id and not _calls_after_swap_only(F, c, swap_fn) else (False, w)
                    return memo[fid]
        return memo[fid]
    for m in samplers:
        if m.id == swap_fn.id:
            # sampling inlined into the swapping function: every slot load must be dominated by the swap
            whole, idx, loads = reads_slots(F, m, R)
            okk = all(swap_site.bb in dom[l.bb] and swap_site.bb != l.bb for l in loads if l.aty == "usize" and not on_field(l, R.gen))
            ctx.check(okk, rid, "sample-after-swap:%s@%s" % (T.split("::")[-1], keyname(m.name).split("::")[-1]), "reader slots are sampled only after the pointer swap", m.span, None)
            continue
        ok, w = post_swap_only(m.id)
        ctx.check(ok, rid, "sample-after-swap:%s@%s" % (T.split("::")[-1], keyname(m.name).split("::")[-1]),
                  "%s samples the reader slots only on call chains that start after the pointer swap" % m.name.split("::")[-1], m.span,
                  {"witness": w, "why": "a slot seen idle before the swap proves nothing: a reader may enter afterwards and still load the old pointer"})


def _calls_after_swap_only(F, c, swap_fn):
    return False


def rule_f(ctx, R, types):
    F = ctx.F
    rid = "C01.f"
    # every Box::<T>::from_raw on a snapshot type: in the swap function (C01.a) or in Drop for HalfLock<T> (&mut self)
    for i in F.inst:
        if i.body is None or not i.local:
            continue
        for bb, t, c in call_sites(F, i, lambda c: c.defp == "alloc::boxed::Box::<T>::from_raw" and c.args and c.args[0] in types):
            T = c.args[0]
            in_store = any(s.op == "swap" and on_field(s, R.ptr) for s in sites(F, i))
            in_drop = re.match(r"^<%s<.*> as core::ops::drop::Drop>::drop$" % re.escape(HL), i.name) is not None
            ctx.check(in_store or in_drop, rid, "free-site:%s@%s" % (T.split("::")[-1], keyname(i.name).split("::")[-1]),
                      "a snapshot box is rebuilt from its raw pointer only by the swapping writer (after the barrier) or by Drop for the lock",
                      t["sp"], "Box::from_raw on a snapshot in %s" % i.name)
    # values loaded from the pointer field are only shared-reborrowed
    for i in F.inst:
        if i.body is None or not i.local or i.crate != "signal_hook_registry":
            continue
        lds = [s for s in sites(F, i) if s.op in ("load", "swap") and on_field(s, R.ptr)]
        if not lds:
            continue
        fl = flow(i)
        for bb, bl in enumerate(i.blocks):
            for si, s in enumerate(bl["s"]):
                if s["k"] == "assign" and s["r"]["k"] in ("ref", "rawptr") and s["r"]["m"] not in ("shared", "Const") \
                        and any(p["k"] == "deref" for p in s["r"]["p"]["p"]):
                    ex = fl.place(s["r"]["p"], (bb, si))
                    if any(mentions(e, lambda x: x[0] == "call" and x[1] in [l.bb for l in lds]) for e in ex):
                        ctx.bad(rid, "mut-reborrow@%s" % keyname(i.name).split("::")[-1],
                                "a published snapshot is reborrowed mutably (readers may be using it)", s["sp"], [show(e) for e in ex])
    ctx.ok(rid, "shared-reborrow", "pointers loaded from the snapshot field are only reborrowed as shared references")
    dyn = action_dyn(F)
    snap = lambda a: any(t in a for t in ("signal_hook_registry::SignalData", "signal_hook_registry::Slot", RG, WG, dyn))
    esc = escapes(F, snap, clone_pred=lambda a: a.startswith(RG) or a.startswith(WG))
    esc = [e for e in esc if not is_user_code(e)]
    arc_raw = [i for i in F.inst if re.match(r"^alloc::sync::Arc::<.*>::(into_raw|from_raw|increment_strong_count|decrement_strong_count|from_raw_in|into_raw_with_allocator)$", i.name)
               and dyn in i.name]
    ctx.check(not esc and not arc_raw, rid, "no-escape", "no forget/ManuallyDrop/ptr::read on snapshot, guard or action types, no raw Arc juggling on actions, "
              "no Clone on guards (so every action is released exactly once by Arc)", None, [e.name[:200] for e in esc + arc_raw])


def rule_g(ctx):
    F = ctx.F
    rid = "C01.g"
    cone = dispatch_cone(F)
    from .C03 import _io_error_refinement
    ioerr, free_outside, bad_ctor, cut = _io_error_refinement(ctx, F, cone, rid)
    free = cone.of_class("FREE")
    okk = (not free) or (not free_outside and not bad_ctor)
    ctx.check(okk, rid, "no-free-in-dispatch", "no deallocation is reachable from signal dispatch, so the last reference to an action or "
              "snapshot is dropped by a mutator, never inside a handler (%d instances in the cone)" % len(cone.members), None,
              {"chain": cut.chain_text(free_outside[0][0].id) if free_outside else None})
    # in the handler every read guard is dropped on every path to return
    h = handler(F)
    ctx.fn(h)
    n = 0
    for l, ty in enumerate(h.body["locals"]):
        if ty.startswith(RG + "<"):
            n += 1
            drops = {bb for bb, t in h.drops() if not t["p"]["p"] and t["p"]["l"] == l}
            defs = [bb for bb, t in h.calls() if t.get("dest") and not t["dest"]["p"] and t["dest"]["l"] == l]
            okk = bool(defs)
            for dbb in defs:
                r = cfg.reachable_after(h, dbb, avoid=drops, unwind=False, labels=["ret"])
                if r & set(h.exits()):
                    okk = False
            ctx.check(okk, rid, "handler-drops-guard:%s" % re.sub(r"[\w:]+::", "", ty), "the dispatcher drops this read guard on every path to return", h.span,
                      "a return path keeps the reader count incremented forever (writers would spin)")
    if n < 2:
        raise AnchorLost("the dispatcher holds fewer than two read guards")


def run(ctx):
    _F[0] = ctx.F
    from .. import fixtures
    ctx.guarded("C01.FX", lambda c: fixtures.run(c, ['escapes', 'orderings', 'effects']))
    F = ctx.F
    ctx.rule("C01.a", "writer order: the value returned by the pointer swap reaches Box::from_raw only on paths through a completed "
                      "barrier call (a workspace callee that loads the reader slots)", floor=2)
    ctx.rule("C01.b", "reader order: the reader-slot fetch_add dominates the single snapshot-pointer load; the guard is built from that "
                      "pointer and that slot", floor=4)
    ctx.rule("C01.c", "pairing: Drop of the guard does exactly one fetch_sub(1) on the stored slot reference; guards are built only by the lock", floor=3)
    ctx.rule("C01.d", "Dekker orderings: reader fetch_add + pointer load, writer pointer swap + slot load are SeqCst; guard release >= Release; "
                      "auxiliary accesses have constant orderings", floor=10)
    ctx.rule("C01.e", "the writer-side wait reads the reader-slot array as a whole (or every constant index)", floor=2)
    ctx.rule("C01.f", "who may free / touch: Box::from_raw on snapshots only in the swapping writer or Drop; only shared reborrows of the "
                      "published pointer; no forget/ptr::read/raw-Arc on snapshot, guard or action types", floor=4)
    ctx.rule("C01.g", "not inside a handler: no FREE leaf in the dispatch cone; the dispatcher drops its guards on every path", floor=3)
    ctx.rule("C01.h", "every writer-side sampling of the reader slots lies on a call chain that starts after the pointer swap (a zero seen before "
                      "the swap cannot count towards the grace period)", floor=2)

    def body(ctx):
        R = Roles(F)
        types = halflocks(F)
        for T in types:
            a = ctx.guarded("C01.a", rule_a, R, T)
            b = ctx.guarded("C01.b", rule_b, R, T)
            slot_field = b[3] if b and len(b) > 3 else None
            dec = ctx.guarded("C01.c", rule_c, R, T, slot_field)
            if a and b:
                ctx.guarded("C01.d", rule_d, R, T, b[0], b[1], b[2], a[1], dec)
                ctx.guarded("C01.e", rule_e, R, T, b[0])
                ctx.guarded("C01.h", rule_h, R, T, a[0], a[1])
        ctx.guarded("C01.f", rule_f, R, types)
    ctx.guarded("C01.a", body)
    ctx.guarded("C01.g", rule_g)

    def rule_i(c):
        from .C13 import rule_d as fd_owner
        from .C18 import _Alias
        c.rule("C01.i", "nothing an action uses is released while the action is still registered: the self-pipe descriptor an action writes to is "
                        "obtained from an owner the action itself keeps alive (shared with C13.d)", floor=2)
        fd_owner(_Alias(c, "C01.i"))
    ctx.guarded("C01.i", rule_i)
    ctx.note("not decided: that the protocol as a whole is a correct grace period under all interleavings (RCU proof); the value-level "
             "logic of the barrier (exit condition 'all slots seen zero', sticky seen_zero) — computed through iterator combinators whose "
             "meaning is not visible in the CFG shape")
    ctx.assume("references derived from a guard cannot outlive it: enforced by the borrow checker through Deref's signature (safe Rust)")
