"""C01 — removal is quiescent; snapshots freed after the barrier, outside any handler (structural part)."""
import re
from .. import cfg
from ..anchors import handler, dispatch_cone, action_dyn, is_user_code
from ..atomics import sites, recv_field, at_least, ordering_names
from ..facts import strip_generics, keyname, AnchorLost
from ..flow import flow, deep_strip, strip, show, mentions, fold
from .util import call_sites, exactly_once, adt_constructions, escapes

HL = "signal_hook_registry::half_lock::HalfLock"
RG = "signal_hook_registry::half_lock::ReadGuard"
WG = "signal_hook_registry::half_lock::WriteGuard"


from . import hl
from .hl import Roles, on_field, HL as _HL


def hl_methods(F, T):
    return hl.methods(F, T)


def rule_f(ctx, R, types):
    F = ctx.F
    rid = "C01.f"
    # every Box::<T>::from_raw on a snapshot type: in the swapping writer (C01.a) or in Drop for HalfLock<T> (&mut self); the call may
    # sit in a private helper, so each site is attributed to the lock entry points whose normal form contains it
    from .. import inline
    views = {T: hl.View(F, R, T) for T in types}
    for i in F.inst:
        if i.body is None or not i.local:
            continue
        for bb, t, c in call_sites(F, i, lambda c: c.defp == "alloc::boxed::Box::<T>::from_raw" and c.args and c.args[0] in types):
            T = c.args[0]
            V = views[T]
            owners = [r for r in V.roots if r.id == i.id or i.id in inline.all_inlined(V.n[r.id])]
            sw = {m.id for m in V.swappers}
            okk = bool(owners) and all(r.id in sw or re.match(r"^<%s<.*> as core::ops::drop::Drop>::drop$" % re.escape(HL), r.name) for r in owners)
            if not owners and re.match(r"^<.* as core::ops::drop::Drop>::drop$", i.name) and hl.in_module(i):
                # the destructor of a private member of the lock (an owning pointer newtype): it runs as part of dropping the lock itself
                # (`&mut self`, no reader can exist) — reached from the lock's drop glue and from no guard's
                def glue_of(prefix):
                    return [g for g in F.inst if g.kind == "drop_glue" and (g.drop_ty or "").startswith(prefix + "<") and T in (g.drop_ty or "")]
                in_lock = i.id in F.reach(glue_of(HL)) if glue_of(HL) else False
                in_guard = any(i.id in F.reach(glue_of(g_)) for g_ in (RG, WG) if glue_of(g_))
                okk = in_lock and not in_guard
            ctx.check(okk, rid, "free-site:%s@%s" % (T.split("::")[-1], keyname(i.name).split("::")[-1]),
                      "a snapshot box is rebuilt from its raw pointer only by the swapping writer (after the barrier) or by Drop for the lock",
                      t["sp"], {"in": i.name, "reached_from_entry_points": [r.name for r in owners]})
    # values loaded from the pointer field are only shared-reborrowed
    for i in F.inst:
        if i.body is None or not i.local or i.crate != "signal_hook_registry":
            continue
        lds = [s for s in sites(F, i) if s.op in ("load", "swap") and on_field(s, R.ptr)]
        if not lds:
            continue
        fl = flow(i)
        for bb, bl in enumerate(i.blocks):
            for si, s in enumerate(bl["s"]):
                if s["k"] == "assign" and s["r"]["k"] in ("ref", "rawptr") and s["r"]["m"] not in ("shared", "Const") \
                        and any(p["k"] == "deref" for p in s["r"]["p"]["p"]):
                    ex = fl.place(s["r"]["p"], (bb, si))
                    if any(mentions(e, lambda x: x[0] == "call" and x[1] in [l.bb for l in lds]) for e in ex):
                        ctx.bad(rid, "mut-reborrow@%s" % keyname(i.name).split("::")[-1],
                                "a published snapshot is reborrowed mutably (readers may be using it)", s["sp"], [show(e) for e in ex])
    ctx.ok(rid, "shared-reborrow", "pointers loaded from the snapshot field are only reborrowed as shared references")
    dyn = action_dyn(F)
    snap = lambda a: any(t in a for t in ("signal_hook_registry::SignalData", "signal_hook_registry::Slot", RG, WG, dyn))
    esc = escapes(F, snap, clone_pred=lambda a: a.startswith(RG) or a.startswith(WG))
    esc = [e for e in esc if not is_user_code(e)]
    arc_raw = [i for i in F.inst if re.match(r"^alloc::sync::Arc::<.*>::(into_raw|from_raw|increment_strong_count|decrement_strong_count|from_raw_in|into_raw_with_allocator)$", i.name)
               and dyn in i.name]
    ctx.check(not esc and not arc_raw, rid, "no-escape", "no forget/ManuallyDrop/ptr::read on snapshot, guard or action types, no raw Arc juggling on actions, "
              "no Clone on guards (so every action is released exactly once by Arc)", None, [e.name[:200] for e in esc + arc_raw])


def rule_g(ctx):
    F = ctx.F
    rid = "C01.g"
    cone = dispatch_cone(F)
    from .C03 import _io_error_refinement
    ioerr, free_outside, bad_ctor, cut = _io_error_refinement(ctx, F, cone, rid)
    free = cone.of_class("FREE")
    okk = (not free) or (not free_outside and not bad_ctor)
    ctx.check(okk, rid, "no-free-in-dispatch", "no deallocation is reachable from signal dispatch, so the last reference to an action or "
              "snapshot is dropped by a mutator, never inside a handler (%d instances in the cone)" % len(cone.members), None,
              {"chain": cut.chain_text(free_outside[0][0].id) if free_outside else None})
    # in the dispatcher (normal form) every read guard is dropped on every path to return — directly, or as part of a private struct it was
    # moved into
    from . import reg
    h, nh = reg.handler_n(F)
    ctx.fn(h)
    L = reg.locks(F)
    n = 0
    for T in (reg.DATA_T, reg.FB_T):
        for rb, rt in reg.calls_to(nh, L.readers(T)):
            d = rt.get("dest")
            if not d or d["p"]:
                continue
            n += 1
            carriers = {d["l"]}; grow = True
            while grow:
                grow = False
                for bl in nh.blocks:
                    for st in bl["s"]:
                        if st["k"] != "assign" or st["l"]["p"] or st["l"]["l"] in carriers:
                            continue
                        r_ = st["r"]
                        ops = [r_["o"]] if r_["k"] == "use" else (r_["ops"] if r_["k"] == "aggregate" else [])
                        if any(o.get("k") == "move" and o["p"]["l"] in carriers for o in ops):
                            carriers.add(st["l"]["l"]); grow = True
            drops = {bb for bb, t in nh.drops() if t["p"]["l"] in carriers}
            r = cfg.reachable_after(nh, rb, avoid=drops, unwind=False, labels=["ret"])
            okk = bool(drops) and not (r & set(nh.exits()))
            ctx.check(okk, rid, "handler-drops-guard:%s" % T.split("::")[-1].rstrip(">"), "the dispatcher drops this read guard on every path to return", rt["sp"],
                      "a return path keeps the reader count incremented forever (writers would spin)")
    if n < 2:
        raise AnchorLost("the dispatcher holds fewer than two read guards")


def run(ctx):
    from .. import fixtures
    ctx.guarded("C01.FX", lambda c: fixtures.run(c, ['escapes', 'orderings', 'effects']))
    F = ctx.F
    ctx.rule("C01.a", "writer order: the value returned by the pointer swap reaches Box::from_raw only on paths through a completed "
                      "barrier call (a workspace callee that loads the reader slots)", floor=2)
    ctx.rule("C01.b", "reader order: the reader-slot fetch_add dominates the single snapshot-pointer load; the guard is built from that "
                      "pointer and that slot", floor=4)
    ctx.rule("C01.c", "pairing: Drop of the guard does exactly one fetch_sub(1) on the stored slot reference; guards are built only by the lock", floor=3)
    ctx.rule("C01.d", "Dekker orderings: reader fetch_add + pointer load, writer pointer swap + slot load are SeqCst; guard release >= Release; "
                      "auxiliary accesses have constant orderings", floor=10)
    ctx.rule("C01.e", "the writer-side wait reads the reader-slot array as a whole (or every constant index)", floor=2)
    ctx.rule("C01.f", "who may free / touch: Box::from_raw on snapshots only in the swapping writer or Drop; only shared reborrows of the "
                      "published pointer; no forget/ptr::read/raw-Arc on snapshot, guard or action types", floor=4)
    ctx.rule("C01.g", "not inside a handler: no FREE leaf in the dispatch cone; the dispatcher drops its guards on every path", floor=3)
    ctx.rule("C01.h", "every writer-side sampling of the reader slots lies on a call chain that starts after the pointer swap (a zero seen before "
                      "the swap cannot count towards the grace period)", floor=2)

    ctx.rule("C01.k", "the wait's bookkeeping starts from 'no slot seen idle': constant initialisers of the seen flags in the swapping writer are all "
                      "false (flags that start true end the grace period before any reader slot was looked at)", floor=2)

    def body(ctx):
        R = Roles(F)
        types = hl.lock_types(F)
        for T in types:
            V = hl.View(F, R, T)
            a = ctx.guarded("C01.a", lambda c: hl.rule_writer_order(c, "C01.a", V))
            b = ctx.guarded("C01.b", lambda c: hl.rule_reader_order(c, "C01.b", V))
            slot_field = b[4] if b else None
            dec = ctx.guarded("C01.c", lambda c: hl.rule_release(c, "C01.c", V, slot_field))
            if a and b:
                ctx.guarded("C01.d", lambda c: hl.rule_orderings(c, "C01.d", V, b[2], b[3], a[2], dec))
                ctx.guarded("C01.e", lambda c: hl.rule_covers_all(c, "C01.e", V))
                ctx.guarded("C01.h", lambda c: hl.rule_sample_after_swap(c, "C01.h", V))
                ctx.guarded("C01.k", lambda c: hl.rule_seen_flags(c, "C01.k", V))
                ctx.guarded("C01.k", lambda c: hl.rule_exit_needs_all(c, "C01.k", V))
                ctx.guarded("C01.k", lambda c: hl.rule_flag_means_idle(c, "C01.k", V))
        ctx.guarded("C01.f", rule_f, R, types)
    ctx.guarded("C01.a", body)
    ctx.guarded("C01.g", rule_g)

    def rule_i(c):
        from .C13 import rule_d as fd_owner
        from .C18 import _Alias
        c.rule("C01.i", "nothing an action uses is released while the action is still registered: the self-pipe descriptor an action writes to is "
                        "obtained from an owner the action itself keeps alive (shared with C13.d)", floor=2)
        fd_owner(_Alias(c, "C01.i"))
    ctx.guarded("C01.i", rule_i)

    def rule_j(c):
        """when removal returns — whatever it returns — the action is quiescent: a removal that found nothing to remove must still have
        serialised behind the remover that did (and behind its grace period). So no return path of a public removal function may avoid the
        writer lock of the data snapshot."""
        from . import reg
        from .C02 import registering
        c.rule("C01.j", "every return path of a public removal function passes through the acquisition of the snapshot's writer lock (no lock-free "
                        "'nothing to do' fast path: it would return while another remover's grace period is still running)", floor=2)
        L = reg.locks(F)
        wr = L.writers(reg.DATA_T)
        regids = {i.id for _, i, _ in registering(F)}
        n = 0
        for fn, i, nm, sites_ in reg.mutators(F, reg.DATA_T):
            if i.id in regids:
                continue
            n += 1
            c.fn(i)
            wb = {bb for bb, t in reg.calls_to(nm, wr)}
            r = cfg.reachable(nm, 0, avoid=wb, unwind=False) & set(nm.exits())
            c.check(bool(wb) and not r, "C01.j", "removal-serialised@%s" % keyname(i.name), "%s takes the writer lock on every path to return" % fn["path"].split("::")[-1], i.span,
                    {"return_reachable_without_writer_lock": cfg.path(nm, 0, sorted(r)[0], avoid=wb, unwind=False) if r else None})
        if n < 2:
            raise AnchorLost("public removal functions: %d" % n)
    ctx.guarded("C01.j", rule_j)
    ctx.note("not decided: that the protocol as a whole is a correct grace period under all interleavings (RCU proof); the value-level "
             "logic of the barrier (exit condition 'all slots seen zero', sticky seen_zero) — computed through iterator combinators whose "
             "meaning is not visible in the CFG shape")
    ctx.assume("references derived from a guard cannot outlive it: enforced by the borrow checker through Deref's signature (safe Rust)")
