"""C03 — dispatch is async-signal-safe: effect reachability (E1) over the dispatch cone, loop shapes,
explicit panic sites."""
import re
from .. import cfg
from ..anchors import dispatch_cone, handler, action_closures, action_instances, is_user_code
from ..effects import Cone, classify, is_leaf, is_panicking_api, norm, _tsv
from ..facts import strip_generics, keyname, AnchorLost
from ..flow import flow, fold, strip, deep_strip, show, mentions, deps
from ..conds import facts_at, truth

FORBIDDEN = {"ALLOC", "FREE", "LOCK", "WAIT", "ALLOCFREE_UNKNOWN", "SYSCALL", "UNCLASSIFIED"}
ALLOWED = {"INTRINSIC", "SAFE_FFI", "TERM", "SAFE", "WS_C", "UBCHECK", "PANIC", "SAFE_FFI_BLOCK"}
REFUSED_ITERS = ("core::iter::sources::repeat::Repeat", "core::iter::adapters::cycle::Cycle", "core::ops::range::RangeFrom",
                 "core::iter::sources::from_fn::FromFn", "core::iter::sources::successors::Successors",
                 "core::iter::sources::repeat_with::RepeatWith", "core::range::RangeFrom")
MSG_DONTWAIT = 0x40


def _io_error_refinement(ctx, F, cone, rid):
    """FREE may be reachable only below drop_in_place::<io::Error> (the Custom variant) and then only if no
    allocating io::Error constructor is reachable in the cone."""
    ioerr = [i for i in cone.members if i.kind == "drop_glue" and i.drop_ty == "std::io::error::Error"]
    cut = Cone(F, cone.roots, stop=lambda i: i.kind == "drop_glue" and i.drop_ty == "std::io::error::Error")
    free = cut.of_class("FREE")
    bad_ctor = [i for i in cone.members
                if re.match(r"^std::io::error::Error::(new|other|_new)\b", strip_generics(i.name))
                or re.match(r"^<std::io::error::Error as core::convert::From<(?!std::io::error::ErrorKind>|std::io::error::Error>).*>>::from", i.name)
                or ("alloc::boxed::Box<dyn core::error::Error" in i.name and "std::io::error::Error" in i.name)]
    return ioerr, free, bad_ctor, cut


def rule_a(ctx):
    F = ctx.F
    cone = dispatch_cone(F)
    rid = "C03.a"
    ctx.rule(rid, "no ALLOC/FREE/LOCK/WAIT/unclassified leaf reachable from the signal dispatcher or any built-in action; "
                  "every FFI leaf is in signal-safety(7); blocking-capable FFI only under its stated condition", floor=20)
    h = handler(F)
    ctx.fn(h)
    acts = action_instances(F)
    closures = action_closures(F)
    lib_acts = [a for a, via in acts if not is_user_code(a)]
    ctx.check(len(lib_acts) >= 8, rid, "roots:library-actions",
              "library action closures found as dispatch roots: %d (5 flag/pipe + 3 iterator exfiltrators expected)" % len(lib_acts),
              None, "expected at least 8 built-in action closures coerced to the registry action type")
    for a, via in acts:
        ctx.fn(a)
    ioerr, free_outside, bad_ctor, cut = _io_error_refinement(ctx, F, cone, rid)
    for iid, (cls, note) in sorted(cone.leaves.items()):
        li = F.inst[iid]
        key = "leaf:%s" % norm(keyname(li.name))
        if cls in FORBIDDEN:
            if cls == "FREE" and not free_outside and not bad_ctor and ioerr:
                ctx.ok(rid, key, "FREE reachable only below drop_in_place::<io::Error> (Custom variant); no allocating "
                       "io::Error constructor in the cone, so the variant cannot occur", li.span)
                continue
            where = None
            chain = cone.chain_text(iid)
            if cls == "FREE" and free_outside:
                chain = cut.chain_text(free_outside[0][0].id)
            ctx.bad(rid, key, "%s leaf reachable from signal dispatch: %s" % (cls, li.name), where,
                    {"class": cls, "note": note, "call_chain": chain,
                     "allocating_io_error_ctor": [b.name for b in bad_ctor][:3]})
        elif cls in ALLOWED:
            ctx.ok(rid, key, "%s leaf `%s` %s" % (cls, li.symbol or keyname(li.name), ("— " + note) if note else ""))
        else:
            ctx.bad(rid, key, "leaf with unknown class %s" % cls, None, {"call_chain": cone.chain_text(iid)})
    # indirect calls: only the chained previous handler (address read from the saved sigaction)
    # (judged in the dispatcher's normal form where the frame is part of it: the pointer may travel through a private helper or a small enum)
    from . import reg
    from .. import inline
    h0, hn = reg.handler_n(F)
    in_norm = set(inline.all_inlined(hn)) | {h0.id}
    ind = [(fi, bb, t) for (fi, bb, t) in cone.indirect if fi.id not in in_norm]
    ind += [(hn, bb, t) for bb, t in hn.calls() if t.get("indirect")]
    for (fi, bb, t) in ind:
        ex = flow(fi).term_operand(bb, t["fop"])
        okk = bool(ex) and all(any(x[0] == "field" and x[1] in ("sa_sigaction", "sa_handler") for x in deps(fi, [e])) for e in ex)
        ctx.check(okk, rid, "indirect:%s" % keyname(fi.name),
                  "indirect call in %s is the chained previous handler (pointer read from the saved sigaction)" % fi.name,
                  t["sp"], {"fn_pointer": [show(e) for e in ex]})
        ctx.analysed["call_sites"] += 1
    # blocking-capable FFI: per call site
    for m in cone.members:
        if m.body is None:
            continue
        for bb, t in m.calls():
            if t.get("f") is None:
                continue
            ci = F.inst[t["f"]]
            if ci.kind != "foreign":
                continue
            cls, note = classify(ci)
            ctx.analysed["call_sites"] += 1
            if cls != "SAFE_FFI_BLOCK":
                continue
            sym = ci.symbol
            key = "ffi:%s@%s" % (sym, keyname(m.name))
            if sym in ("send", "recv", "sendto", "recvfrom", "sendmsg", "recvmsg"):
                fl = flow(m).term_arg(bb, 3)
                vals = [fold(e) for e in fl]
                okk = bool(vals) and all(v is not None and (v & MSG_DONTWAIT) for v in vals)
                ctx.check(okk, rid, key, "`%s` in dispatch carries the MSG_DONTWAIT constant" % sym, t["sp"],
                          {"flags": [show(e) for e in fl]})
            elif sym == "write":
                # (i) the function never returns after this write (it is about to abort), or
                # (ii) it is the self-pipe wake, whose descriptor was put into O_NONBLOCK at registration (C13.b)
                after = cfg.reachable_after(m, bb, unwind=False)
                never_returns = not (after & set(m.exits()))
                if never_returns:
                    ctx.ok(rid, key, "`write` on a path that never returns (message before abort)", t["sp"])
                else:
                    from .C13 import nonblock_write_established
                    okk, why = nonblock_write_established(ctx, F, m, bb)
                    ctx.check(okk, rid, key, "`write` in dispatch only on a descriptor switched to O_NONBLOCK at registration (C13.b)",
                              t["sp"], why)
            else:
                ctx.bad(rid, key, "blocking-capable `%s` in dispatch has no established non-blocking condition" % sym, t["sp"], note)


def _loop_kind(F, m, comp):
    """classify a cycle: ('iter', bb) / ('cas', bb) / None"""
    fl = flow(m)
    iter_blocks = []; cas_blocks = []
    for b in comp:
        t = m.term(b)
        if t["k"] != "call" or t.get("f") is None:
            continue
        d = norm(t.get("def") or "")
        if d == "std::iter::traits::iterator::Iterator::next":
            selfty = (t.get("targs") or [""])[0]
            if not any(selfty.startswith(r) for r in REFUSED_ITERS):
                iter_blocks.append(b)
        if re.search(r"::compare_exchange(_weak)?$", d) and "atomic" in d:
            cas_blocks.append(b)

    def breaks_all(blocks):
        if not blocks:
            return False
        rest = set(comp) - set(blocks)
        # is there still a cycle inside `rest`?
        for s in rest:
            seen = set(); st = [x for x in m.succ(s) if x in rest]
            while st:
                x = st.pop()
                if x == s:
                    return False
                if x in seen:
                    continue
                seen.add(x)
                st.extend(y for y in m.succ(x) if y in rest)
        return True
    if breaks_all(iter_blocks):
        return ("iter", iter_blocks)
    if breaks_all(cas_blocks):
        # the loop must leave on the CAS's Ok result: a switch on discr(result of that CAS) whose Ok (discriminant 0) edge
        # leaves the cycle without passing the CAS again. The Ok edge may be written as a value edge (`match`) or as the
        # otherwise edge of `while let Err(..) = cas` (values = [1]).
        for b in comp:
            t = m.term(b)
            if t["k"] != "switch":
                continue
            ex = [deep_strip(e) for e in fl.term_operand(b, t["d"])]
            for e in ex:
                if not (e[0] == "discr" and strip(e[1])[0] == "call" and strip(e[1])[1] in cas_blocks):
                    continue
                vals = {v: tgt for v, tgt in t["vals"]}
                if 0 in vals:
                    ok_tgt = vals[0]
                elif set(vals) == {1}:
                    ok_tgt = t["else"]
                else:
                    continue
                if ok_tgt not in comp:
                    return ("cas", cas_blocks)
                r = cfg.reachable(m, ok_tgt, avoid=set(cas_blocks))
                if not (r & set(cas_blocks)) and (r - set(comp)):
                    return ("cas", cas_blocks)
        return None
    return None


def rule_b(ctx, cone=None, rid="C03.b", floor=1):
    F = ctx.F
    cone = cone or dispatch_cone(F)
    ctx.rule(rid, "every loop in a workspace-local function of the cone is iterator-driven over a finite source or a "
                  "CAS-retry loop leaving on the CAS's Ok result (no waiting for another thread)", floor=floor)
    nloops = 0
    for m in cone.members:
        if not (m.local and m.body is not None) or is_user_code(m):
            continue
        ctx.fn(m)
        for comp in cfg.cycles(m):
            nloops += 1
            k = _loop_kind(F, m, comp)
            if k is None:
                # the CAS / iterator step may sit in a private helper called from the loop: look at the frame's normal form, at the loops
                # that contain code of this very frame
                from .nf import NF
                nm_ = NF(F, m)
                ks = [_loop_kind(F, nm_, c2) for c2 in cfg.cycles(nm_) if any(nm_.blocks[b_].get("from") is None for b_ in c2)]
                if ks and all(x is not None for x in ks):
                    k = ks[0]
            key = "loop:%s#%d" % (keyname(m.name), len(comp))
            where = m.term(min(comp))["sp"]
            if k is None:
                ctx.bad(rid, key, "loop in %s is neither iterator-driven nor a CAS-retry loop" % m.name, where,
                        {"blocks": sorted(comp), "calls_in_loop": sorted({(m.term(b).get("def") or "") for b in comp if m.term(b)["k"] == "call"})})
            else:
                ctx.ok(rid, key, "%s loop in %s (bounded own steps)" % ({"iter": "iterator-driven", "cas": "CAS-retry"}[k[0]], m.name), where)
    ctx.ok(rid, "loops:inventory", "%d loop(s) in %d workspace-local frames of the cone were classified" % (nloops, sum(1 for m in cone.members if m.local and m.body is not None)))


def _audited(scope):
    return [(re.compile("^" + r[1] + "$"), r[2]) for r in _tsv("audited_panics.tsv") if scope in r[0].split(",")]


def _array_of_index(m, idx_local):
    for bl in m.blocks:
        places = []
        for s in bl["s"]:
            if s["k"] == "assign":
                places.append(s["l"])
                r = s["r"]
                if "p" in r and isinstance(r["p"], dict):
                    places.append(r["p"])
                if r["k"] == "use" and r["o"].get("p"):
                    places.append(r["o"]["p"])
        for pl in places:
            for n, p in enumerate(pl["p"]):
                if p["k"] == "index" and p["l"] == idx_local:
                    if n > 0 and pl["p"][n - 1]["k"] == "field":
                        return pl["p"][n - 1]["t"]
                    if n > 0 and pl["p"][n - 1]["k"] == "deref" and n > 1 and pl["p"][n - 2]["k"] == "field":
                        return pl["p"][n - 2]["t"]
                    return m.local_ty(pl["l"])
    return None


def panic_sites(F, m):
    """explicit panic sites of workspace frame m: [(kind, key, bb, span, info)]"""
    out = []
    for bb, bl in enumerate(m.blocks):
        t = bl["t"]
        if t["k"] == "assert":
            msg = t["msg"]
            if msg == "BoundsCheck":
                ex = flow(m).term_operand(bb, t["cond"])
                arr = None; idx = None
                e = deep_strip(ex[0]) if ex else None
                # find index local: cond = Lt(idx, len)
                for s in bl["s"]:
                    if s["k"] == "assign" and s["r"]["k"] == "binop" and s["r"]["op"] == "Lt":
                        a = s["r"]["a"]
                        if a["k"] in ("copy", "move") and not a["p"]["p"]:
                            idx = a["p"]["l"]
                if idx is not None:
                    arr = _array_of_index(m, idx)
                out.append(("bounds", "bounds:%s" % (arr or "?"), bb, t["sp"], {"cond": e, "idx_local": idx, "array": arr}))
            else:
                ex = flow(m).term_operand(bb, t["cond"])
                out.append((msg, "assert:%s" % msg, bb, t["sp"], {"cond": deep_strip(ex[0]) if ex else None}))
        elif t["k"] == "call" and t.get("f") is not None:
            ci = F.inst[t["f"]]
            if is_leaf(ci) and classify(ci)[0] == "PANIC":
                out.append(("panic", "panic:%s" % norm(keyname(ci.name)), bb, t["sp"], {}))
            elif is_panicking_api(ci) and not norm(ci.defp).startswith("std::sync::atomic::"):
                selfarg = ci.args[0] if ci.args else ""
                out.append(("api", "api:%s:%s" % (norm(strip_generics(ci.defp)), selfarg), bb, t["sp"], {"callee": ci.name}))
    return out


def _discharge_global_init(ctx, F, m=None):
    """Option<&GlobalData>::unwrap in the accessor of the global registry state: (1) the dispatcher can only run after some public
    function installed it, and in the normal form of every public function that installs it (takes its address for sigaction) the
    Once-guarded initialisation dominates the installing call; (2) in every other public function that reaches the accessor, the
    initialisation dominates the accessor's unwrap."""
    from . import reg
    from .. import inline
    from .C04 import install_calls
    ONCE = "std::sync::once::Once::call_once"
    n_inst = 0
    for fn, i in reg.public_fns(F):
        n = reg.RN(F, i)
        once = [b for b, t in n.calls() if t.get("f") is not None and F.inst[t["f"]].defp == ONCE]
        dom = None
        inst, _q = install_calls(F, n)
        for bb, t in inst:
            n_inst += 1
            dom = dom or cfg.dominators(n)
            if not any(o in dom[bb] and o != bb for o in once):
                return False, "%s installs the dispatcher without a dominating Once initialisation" % i.name
        if m is not None and (m.id in inline.all_inlined(n)):
            dom = dom or cfg.dominators(n)
            for bb, t in n.calls():
                if t.get("f") is not None and F.inst[t["f"]].defp == "core::option::Option::<T>::unwrap" and n.blocks[bb].get("from") == m.id:
                    if not any(o in dom[bb] and o != bb for o in once):
                        return False, "%s reaches the accessor without a dominating Once::call_once" % i.name
    if not n_inst:
        return False, "no public function installs the dispatcher"
    return True, "every public function that installs the dispatcher or reads the global state runs the Once-guarded initialisation first"


def _discharge(ctx, F, m, site):
    kind, key, bb, sp, info = site
    cond = info.get("cond")
    if kind == "RemainderByZero" or kind == "DivisionByZero":
        # assert(!(divisor == 0)): divisor constant non-zero
        c = cond
        if c and c[0] == "binop" and c[1] == "Eq":
            for x in (c[2], c[3]):
                v = fold(x)
                if v is not None and v != 0:
                    return True, "divisor is the non-zero constant %d" % v
        v = fold(c) if c else None
        if v == 0:
            return True, "divisor is a non-zero constant (condition folds to false)"
        return False, None
    if kind == "bounds":
        c = cond
        if c and c[0] == "binop" and c[1] == "Lt":
            idx, ln = c[2], c[3]
            n = fold(ln)
            if n is not None:
                i = strip(idx)
                if i[0] == "binop" and i[1] == "Rem" and fold(i[3]) is not None and 0 < fold(i[3]) <= n:
                    return True, "index is `x %% %d`, array length %d" % (fold(i[3]), n)
                if i[0] == "binop" and i[1] == "BitAnd":
                    ms = [fold(x) for x in (i[2], i[3]) if fold(x) is not None]
                    if ms and 0 <= min(ms) < n:
                        return True, "index is `x & %d`, array length %d" % (min(ms), n)
                iv = fold(idx)
                if iv is not None and 0 <= iv < n:
                    return True, "constant index %d < %d" % (iv, n)
                # captured index validated before the closure was built
                if m.kind == "closure":
                    okk, why = _captured_index_validated(ctx, F, m, idx, n)
                    if okk:
                        return True, why
        return False, None
    if kind == "api" and key.startswith("api:std::option::Option::unwrap:&signal_hook_registry::GlobalData"):
        return _discharge_global_init(ctx, F, m)
    return False, None


def _captured_index_validated(ctx, F, clo, idx_expr, n):
    """idx = (upvar k of the closure) as usize; at the closure's construction site the captured value v satisfies
    0 <= v and (v as usize) < n on every path (dominating assert branches)."""
    e = deep_strip(idx_expr)
    while e[0] == "cast":
        e = deep_strip(e[1])
    # upvar access: field of (deref of) param 1
    if e[0] != "field":
        return False, None
    base = e[1]
    while base[0] in ("deref", "ref"):
        base = base[1]
    if not (base[0] == "param" and base[1] == 1):
        return False, None
    k = e[3]
    # construction sites
    found = False
    from .nf import NF
    for i0 in F.inst:
        if i0.body is None or not i0.local:
            continue
        if not any(s["k"] == "assign" and s["r"]["k"] == "aggregate" and s["r"].get("ak") == "closure" and s["r"]["def"] == clo.defp for bl in i0.blocks for s in bl["s"]):
            continue
        i = NF(F, i0)          # the range checks may sit in a private helper called before the closure is built
        for bb, bl in enumerate(i.blocks):
            for si, s in enumerate(bl["s"]):
                if s["k"] == "assign" and s["r"]["k"] == "aggregate" and s["r"].get("ak") == "closure" \
                        and s["r"].get("ty") and clo.name.endswith("}") and s["r"]["def"] == clo.defp \
                        and _same_closure(s["r"]["ty"], clo):
                    found = True
                    up = flow(i).operand(s["r"]["ops"][k], (bb, si))
                    facts = facts_at(i, bb)
                    for u in up:
                        u = deep_strip(u)
                        while u[0] == "cast":
                            u = deep_strip(u[1])
                        lower = upper = False
                        for (ce, inf, _) in facts:
                            tv = truth(inf)
                            if ce[0] != "binop":
                                continue
                            a, b = deep_strip(ce[2]), deep_strip(ce[3])
                            while a[0] == "cast":
                                a = deep_strip(a[1])
                            if a != u:
                                continue
                            bv = fold(b)
                            if ce[1] == "Ge" and bv == 0 and tv is True:
                                lower = True
                            if ce[1] == "Lt" and bv is not None and bv <= n and tv is True:
                                upper = True
                            if ce[1] == "Lt" and bv == 0 and tv is False:
                                lower = True
                        if not (lower and upper):
                            return False, None
    if not found:
        return False, None
    return True, "captured index is range-checked (0 <= v < %d) on every path to the closure's construction" % n


def _same_closure(ty, clo):
    # closure type string of the aggregate vs the instance's name
    return ty.replace("::<", "<") == ("{closure@%s}" % clo.name).replace("::<", "<")


def rule_c(ctx, cone=None, rid="C03.c", floor=6, scope="dispatch"):
    F = ctx.F
    cone = cone or dispatch_cone(F)
    ctx.rule(rid, "every explicit panic site (MIR Assert, panic call, documented-panicking std API) in a workspace-local "
                  "frame of the cone is discharged by a checked rule or is an audited entry; a new one is a violation", floor=floor)
    aud = _audited(scope)
    # private helpers an action closure forwards to are judged inside the closure's normal form (their parameters are then the captures)
    from .nf import NF
    from .. import inline
    frames = []
    covered = set()
    for r in cone.roots:
        ri = r if hasattr(r, "id") else F.inst[r]
        if ri.kind == "closure" and ri.local and ri.body is not None and not is_user_code(ri):
            n = NF(F, ri)
            inl = set(inline.all_inlined(n))
            if inl:
                covered |= inl | {ri.id}
                frames.append((ri, n))
    for m in cone.members:
        if not (m.local and m.body is not None) or is_user_code(m) or m.id in covered:
            continue
        frames.append((m, m))
    for m0, m in frames:
        for site in panic_sites(F, m):
            kind, key, bb, sp, info = site
            okk, why = _discharge(ctx, F, m, site)
            full = "%s@%s" % (key, keyname(inline.origin_of(F, m, bb).name if m is not m0 else m0.name))
            if okk:
                ctx.ok(rid, full, "panic site discharged: %s" % why, sp)
                continue
            hit = [inv for (rx, inv) in aud if rx.match(key)]
            if hit:
                ctx.ok(rid, full, "audited panic site: %s" % hit[0], sp)
            else:
                ctx.bad(rid, full, "explicit panic site in signal dispatch: %s in %s" % (key, m.name), sp,
                        {"kind": kind, "condition": show(info["cond"]) if info.get("cond") else None,
                         "call_chain": cone.chain_text(m.id)})
    # atomic orderings that std would panic on (load with Release, store with Acquire ...) are checked by E4 (C01.d/C07.b)


def run(ctx):
    from .. import fixtures
    ctx.guarded("C03.FX", lambda c: fixtures.run(c, ['effects', 'loops']))
    ctx.guarded("C03.a", rule_a)
    ctx.guarded("C03.b", rule_b)
    ctx.guarded("C03.c", rule_c)
    ctx.assume("closed world: actions registered by users through the unsafe `register*` API are outside the claim")
    ctx.assume("std/hashbrown functions with MIR are walked; only MIR-less functions are trusted by leaf class (oracle/std_leaf_classes.tsv)")
    ctx.assume("arithmetic-overflow asserts exist only in debug profiles and are not analysed (facts are extracted with overflow-checks off)")
    ctx.note("not decided: a numeric step bound; panic-freedom of the audited sites as a value-level theorem")


def undischarged_sites(ctx, F, roots, scope="mutator", stop=None):
    """explicit panic sites in workspace frames reachable from `roots` that no rule discharges and no audit covers:
    [(frame, site, chain)]"""
    cone = Cone(F, roots, stop=stop)
    aud = _audited(scope)
    out = []
    for m in cone.members:
        if not (m.local and m.body is not None) or is_user_code(m):
            continue
        for site in panic_sites(F, m):
            okk, why = _discharge(ctx, F, m, site)
            if okk:
                continue
            if any(rx.match(site[1]) for (rx, _) in aud):
                continue
            out.append((m, site, cone.chain_text(m.id)))
    return out, cone
