"""C05 — registry behaves as independent per-signal ordered multisets with unique ids; handler stays installed."""
import re
from .. import cfg
from ..anchors import handler, is_user_code
from ..conds import facts_at, truth
from ..facts import keyname, AnchorLost
from ..flow import flow, deps, deep_strip, strip, show, mentions, fold, partial_fields
from .util import call_sites, foreign, adt_constructions
from .C02 import next_id_writes, next_id_writes_in, registering, DATA_T
from . import reg
from .. import inline

SA_RESTART = 0x10000000
SA_SIGINFO = 4
BT = r"^alloc::collections::btree::map::BTreeMap::<signal_hook_registry::ActionId, .*>::"
HM = r"^std::collections::hash::map::HashMap::<i32, signal_hook_registry::Slot>::"
BT_MULTI = ("clear", "retain", "drain", "append", "split_off", "pop_first", "pop_last", "extract_if", "first_entry", "last_entry")
BT_ADD = ("insert", "entry", "try_insert", "extend")
HM_REMOVE = ("remove", "remove_entry", "clear", "retain", "drain", "extract_if")
HM_ADD = ("insert", "entry", "try_insert", "extend")


def map_calls(F, m):
    """[(bb, term, 'bt'|'hm', method)]"""
    out = []
    for bb, t in m.calls():
        if t.get("f") is None:
            continue
        n = F.inst[t["f"]].name
        for kind, rx in (("bt", BT), ("hm", HM)):
            mm = re.match(rx + r"(\w+)", n)
            if mm:
                out.append((bb, t, kind, mm.group(1)))
    return out


def next_id_reads(m):
    """plain reads of the next_id field (Rvalue::Use or an aggregate operand; the `+ 1` of the increment is a BinaryOp and not listed):
    [(bb, stmt index)]"""
    out = []

    def is_nid(o):
        if o.get("k") not in ("copy", "move"):
            return False
        pp = o["p"]["p"]
        return bool(pp) and pp[-1]["k"] == "field" and pp[-1]["n"] == "next_id" and DATA_T in (pp[-1].get("bt") or "")
    for bb, bl in enumerate(m.blocks):
        for si, s in enumerate(bl["s"]):
            if s["k"] != "assign":
                continue
            r = s["r"]
            if r["k"] == "use" and is_nid(r["o"]):
                out.append((bb, si))
            elif r["k"] == "aggregate" and any(is_nid(o) for o in r["ops"]):
                out.append((bb, si))
    return out


def rule_a(ctx):
    F = ctx.F
    rid = "C05.a"
    ctx.rule(rid, "ids: every write to next_id is old+1 on a local clone; the returned SigId carries the pre-increment value and the signal "
                  "parameter; an id is returned only on the path that published that clone", floor=4)
    regs = registering(F)
    regids = {i.id for _, i, _ in regs}
    writers = [i.name for fn, i in reg.public_fns(F) if next_id_writes_in(reg.RN(F, i)) and i.id not in regids]
    ctx.check(not writers and next_id_writes(F), rid, "next_id:single-writer",
              "next_id is written by the registering functions only (never on unregister)", None, writers)
    L = reg.locks(F)
    for fn, r0, r in regs:
        ctx.fn(r0)
        fl = flow(r)
        aids = adt_constructions(r, "signal_hook_registry::ActionId")
        sids = adt_constructions(r, "signal_hook_registry::SigId")
        if not aids or not sids:
            raise AnchorLost("registration no longer builds ActionId / SigId")
        wr = [(bb, si) for (bb, si, s) in next_id_writes_in(r)]
        rds = next_id_reads(r)
        dom = cfg.dominators(r)
        for (abb, asi, rv) in aids:
            v = fl.operand(rv["ops"][0], (abb, asi))
            from_next = bool(v) and all(deep_strip(e)[0] == "field" and deep_strip(e)[2] == "next_id" for e in v)
            pre = bool(rds) and all((rbb == wbb and rsi < wsi) or (rbb in dom[wbb] and rbb != wbb) for (rbb, rsi) in rds for (wbb, wsi) in wr)
            ctx.check(from_next and pre and wr, rid, "id:pre-increment@%s" % keyname(r0.name), "the id is the value of next_id read before the increment", rv.get("sp") or r0.span,
                      {"from_next_id": from_next, "read_before_increment": pre})
        stores = [bb for bb, t in reg.calls_to(r, L.stores(DATA_T))]
        for (sbb, ssi, rv) in sids:
            fields = rv["fields"]
            sig = [deep_strip(e) for e in fl.operand(rv["ops"][fields.index("signal")], (sbb, ssi))]
            act = fl.operand(rv["ops"][fields.index("action")], (sbb, ssi))
            act_ok = bool(act) and all(e[0] == "agg" and e[1][0] == "adt" and e[1][1].endswith("ActionId") for e in [deep_strip(x) for x in act])
            ctx.check(sig == [("param", 1)] and act_ok, rid, "sigid:fields@%s" % keyname(r0.name), "SigId = (signal parameter, the allocated id)", rv.get("sp") or r0.span,
                      {"signal": [show(e) for e in sig], "action": [show(e) for e in act]})
            published = any(s in dom[sbb] and s != sbb for s in stores)
            ctx.check(published, rid, "sigid:only-after-publish@%s" % keyname(r0.name), "the id is returned only after the clone carrying it was published", rv.get("sp") or r0.span,
                      "an id can be returned for a snapshot that was never published (id reuse)")


def _key_is(m, bb, argi, want):
    """does the key argument trace to `want` = ('param', n) or ('param-field', n, name)?"""
    ex = [deep_strip(e) for e in flow(m).term_arg(bb, argi)]
    for e in ex:
        while e[0] in ("ref", "deref"):
            e = deep_strip(e[1])
        if want[0] == "param":
            if e != ("param", want[1]):
                return False
        else:
            if not (e[0] == "field" and e[2] == want[2] and deep_strip(e[1]) == ("param", want[1])):
                return False
    return bool(ex)


def rule_b(ctx):
    F = ctx.F
    rid = "C05.b"
    ctx.rule(rid, "mutation footprint (forbidden sets): unregister removes at most the key id.action from signals[id.signal]; unregister_signal "
                  "touches only signals[signal]; registration never removes; slots of the signal map are never removed anywhere", floor=8)
    un0 = F.one("signal_hook_registry::unregister"); us0 = F.one("signal_hook_registry::unregister_signal")
    ctx.fn(un0); ctx.fn(us0)
    un = reg.RN(F, un0); us = reg.RN(F, us0)
    for (bb, t, kind, meth) in map_calls(F, un):
        key = "unregister:%s::%s" % (kind, meth)
        if kind == "bt":
            if meth in BT_MULTI or meth in BT_ADD:
                ctx.bad(rid, key, "unregister calls BTreeMap::%s (may remove more than one action or add one)" % meth, t["sp"])
            elif meth in ("remove", "remove_entry"):
                ctx.check(_key_is(un, bb, 1, ("param-field", 1, "action")), rid, key, "unregister removes exactly the key id.action", t["sp"],
                          [show(e) for e in flow(un).term_arg(bb, 1)])
            else:
                ctx.ok(rid, key, "read-only map method %s" % meth, t["sp"])
        else:
            if meth in HM_REMOVE or meth in HM_ADD:
                ctx.bad(rid, key, "unregister calls HashMap::%s on the signal map" % meth, t["sp"])
            elif meth in ("get_mut", "get"):
                ctx.check(_key_is(un, bb, 1, ("param-field", 1, "signal")), rid, key, "unregister looks up only signals[id.signal]", t["sp"],
                          [show(e) for e in flow(un).term_arg(bb, 1)])
            else:
                ctx.bad(rid, key, "unregister uses HashMap::%s (may reach other signals' slots)" % meth, t["sp"]) if meth in ("iter_mut", "values_mut") else ctx.ok(rid, key, "read-only map method %s" % meth, t["sp"])
    for (bb, t, kind, meth) in map_calls(F, us):
        key = "unregister_signal:%s::%s" % (kind, meth)
        if kind == "hm":
            if meth in HM_REMOVE or meth in HM_ADD or meth in ("iter_mut", "values_mut"):
                ctx.bad(rid, key, "unregister_signal calls HashMap::%s on the signal map" % meth, t["sp"])
            elif meth in ("get_mut", "get"):
                ctx.check(_key_is(us, bb, 1, ("param", 1)), rid, key, "unregister_signal touches only signals[signal]", t["sp"], [show(e) for e in flow(us).term_arg(bb, 1)])
            else:
                ctx.ok(rid, key, "read-only map method %s" % meth, t["sp"])
        else:
            if meth in BT_ADD:
                ctx.bad(rid, key, "unregister_signal adds actions", t["sp"])
            else:
                ctx.ok(rid, key, "map method %s on the looked-up slot" % meth, t["sp"])
    for fn, r0, r in registering(F):
        for (bb, t, kind, meth) in map_calls(F, r):
            key = "register:%s::%s" % (kind, meth)
            if (kind == "bt" and (meth in BT_MULTI or meth in ("remove", "remove_entry"))) or (kind == "hm" and meth in HM_REMOVE):
                ctx.bad(rid, key, "registration calls %s::%s (removes existing actions/slots)" % (kind, meth), t["sp"])
            elif kind == "hm" and meth in ("entry", "get_mut", "get", "insert"):
                ctx.check(_key_is(r, bb, 1, ("param", 1)), rid, key, "registration addresses only signals[signal]", t["sp"], [show(e) for e in flow(r).term_arg(bb, 1)])
            else:
                ctx.ok(rid, key, "map method %s" % meth, t["sp"])
    # crate-wide: the signal map never loses a slot
    offenders = []
    for i in F.inst:
        if i.body is None or not i.local or is_user_code(i):
            continue
        for (bb, t, kind, meth) in map_calls(F, i):
            if kind == "hm" and meth in HM_REMOVE:
                offenders.append("%s in %s @ %s" % (meth, i.name, t["sp"]))
    ctx.check(not offenders, rid, "slots-never-removed", "HashMap<c_int, Slot>::{remove, clear, retain, drain} is called nowhere (a taken-over signal keeps its slot)", None, offenders)


def rule_c(ctx):
    F = ctx.F
    rid = "C05.c"
    ctx.rule(rid, "unregister's return value is `remove(..).is_some()` and the publish is control-dependent on that same boolean being true; "
                  "likewise unregister_signal (true only after clearing a non-empty slot)", floor=4)
    for name, kind in (("signal_hook_registry::unregister", "remove"), ("signal_hook_registry::unregister_signal", "clear")):
        m0 = F.one(name)
        m = reg.RN(F, m0)
        fl = flow(m)
        stores = reg.calls_to(m, reg.locks(F).stores(DATA_T))
        if len(stores) != 1:
            raise AnchorLost("%s: expected exactly one publish" % name)
        sbb, stt = stores[0]
        rets = m.exits()
        rv = []
        for rb in rets:
            rv += [deep_strip(e) for e in fl.place({"l": 0, "p": []}, (rb, len(m.stmts(rb))))]
        rv = [e for i, e in enumerate(rv) if e not in rv[:i]]
        facts = facts_at(m, sbb)
        cond = [(c, inf) for (c, inf, b) in facts if truth(inf) is True and c in rv]
        same = {c for c, _ in cond} == set(rv) and bool(rv)
        if not same and rv:
            # identity form: one bool local decides the publish and is the answer (`let changed = modify(..); if changed { store } changed`)
            chain = set(); frontier = [(0, (rets[0], len(m.stmts(rets[0]))))] if rets else []
            for rb in rets:
                at = (rb, len(m.stmts(rb)))
                cur = 0
                for _ in range(6):
                    chain.add(cur)
                    ds = [d for d in fl.reaching(cur, at) if d[0] != "entry"]
                    if len(ds) != 1:
                        break
                    sb_, si_ = ds[0]
                    if si_ >= len(m.blocks[sb_]["s"]):
                        break
                    st_ = m.blocks[sb_]["s"][si_]
                    if st_["k"] == "assign" and st_["r"]["k"] == "use" and st_["r"]["o"]["k"] in ("copy", "move") and not st_["r"]["o"]["p"]["p"]:
                        cur = st_["r"]["o"]["p"]["l"]; at = (sb_, si_)
                    else:
                        break
            ident = False
            for b_ in range(m.nblocks()):
                t_ = m.term(b_)
                if t_["k"] != "switch" or t_["d"].get("k") not in ("copy", "move") or t_["d"]["p"]["p"] or t_["d"]["p"]["l"] not in chain:
                    continue
                X = t_["d"]["p"]["l"]
                true_t = [tg for tg, lab in m.succ_labeled(b_) if (lab.startswith("sw:") and lab != "sw:0") or (lab == "else" and [v for v, _ in t_["vals"]] == [0])]
                false_t = [tg for tg, lab in m.succ_labeled(b_) if lab == "sw:0" or (lab == "else" and [v for v, _ in t_["vals"]] != [0])]
                only_true = sbb not in cfg.reachable_without_edges(m, 0, {(b_, tg) for tg in true_t})
                not_false = all(sbb != tg and sbb not in cfg.reachable(m, tg, unwind=False) for tg in false_t)
                same_val = all(fl.reaching(X, (rb, len(m.stmts(rb)))) == fl.reaching(X, (b_, len(m.stmts(b_)))) for rb in rets) if X != 0 else True
                if true_t and only_true and not_false and same_val:
                    ident = True
            same = ident
        if not same and rv:
            # path form: the answer is assembled from literals — `.. None => return false, .. store(pruned); true`. Then every `true` is assigned
            # only where the publish has already happened, every `false` only where it cannot have happened, and a computed answer is the
            # very condition the publish hangs on.
            sites_ = []

            def ret_sites(local, at, depth=0):
                for site in fl.reaching(local, at):
                    if site[0] == "entry" or depth > 6:
                        sites_.append((None, None)); continue
                    sb, si = site
                    bl_ = m.blocks[sb]
                    if si >= len(bl_["s"]):
                        sites_.append((sb, ("expr", ("call", sb)))); continue
                    st = bl_["s"][si]
                    r_ = st["r"] if st["k"] == "assign" else None
                    if r_ and r_["k"] == "use" and r_["o"]["k"] == "const":
                        sites_.append((sb, ("const", 1 if r_["o"]["c"].get("val") else 0)))
                    elif r_ and r_["k"] == "use" and r_["o"]["k"] in ("copy", "move") and not r_["o"]["p"]["p"]:
                        ret_sites(r_["o"]["p"]["l"], (sb, si), depth + 1)
                    else:
                        sites_.append((sb, ("expr", [deep_strip(e) for e in fl.rvalue(r_, (sb, si))] if r_ else None)))
            for rb in rets:
                ret_sites(0, (rb, len(m.stmts(rb))))
            before_store = cfg.reachable(m, 0, avoid={sbb}, unwind=False)
            after_store = cfg.reachable_after(m, sbb, unwind=False)
            okp = bool(sites_)
            for (sb, v) in sites_:
                if sb is None:
                    okp = False
                elif v[0] == "const" and v[1] == 1:
                    # a `true` is produced either after the publish, or on a path that cannot reach the return without publishing
                    behind = sb not in before_store or sb == sbb
                    ahead = not (cfg.reachable(m, sb, avoid={sbb}, unwind=False) & set(rets))
                    okp = okp and (behind or ahead)
                elif v[0] == "const" and v[1] == 0:
                    # a `false` is produced where no publish happened and none can follow
                    okp = okp and sb not in after_store and sbb not in cfg.reachable(m, sb, unwind=False)
                else:
                    ex_ = v[1] if isinstance(v[1], list) else []
                    okp = okp and bool(ex_) and all(any(c == e and truth(inf) is True for (c, inf, b) in facts) for e in ex_)
            same = okp
        ctx.check(same, rid, "%s:publish-iff-returned-true" % name.split("::")[-1], "the publish happens exactly on the true branch of the value that is returned",
                  stt["sp"], {"returned": [show(e) for e in rv], "publish_condition": [(show(c), i) for c, i, _ in facts]})
        nonconst = [e for e in rv if e[0] != "const"]
        consts = [e for e in rv if e[0] == "const"]
        if kind == "remove":
            rm_calls = [bb for (bb, t, k, meth) in map_calls(F, m) if k == "bt" and meth in ("remove", "remove_entry")]
            okk = bool(rm_calls) and all(c[1] in (0, 1) for c in consts)
            for e in nonconst:
                if not (e[0] == "call" and (e[3] or "").endswith("Option::<T>::is_some") and
                        any(x[0] == "call" and x[1] in rm_calls for x in deps(m, [e]))):
                    okk = False
            # a literal `true` may only be assigned where the removal is known to have returned Some
            if any(c[1] == 1 for c in consts):
                for bb, bl in enumerate(m.blocks):
                    for st in bl["s"]:
                        if st["k"] == "assign" and not st["l"]["p"] and m.local_ty(st["l"]["l"]) == "bool" and st["r"]["k"] == "use" and \
                                st["r"]["o"]["k"] == "const" and st["r"]["o"]["c"].get("val") == 1 and not bl["cleanup"]:
                            # only locals that flow into the return value
                            if not any(("const", 1, None) == x[:3] for x in [("const", 1, None)]):
                                continue
                            facts = facts_at(m, bb)
                            some = any((ce[0] == "discr" and strip(ce[1])[0] == "call" and strip(ce[1])[1] in rm_calls and inf == ("eq", 1)) or
                                       (ce[0] == "call" and (ce[3] or "").endswith("is_some") and truth(inf) is True and
                                        any(x[0] == "call" and x[1] in rm_calls for x in deps(m, [ce]))) for (ce, inf, sb) in facts)
                            # drop flags and unrelated bools: only those whose local reaches the return place
                            reaches_ret = any(e == ("const", 1, None, "bool", None, None, "true") or (e[0] == "const" and e[1] == 1) for e in rv) and \
                                _local_reaches_return(m, st["l"]["l"])
                            if reaches_ret and not some:
                                okk = False
            ctx.check(okk, rid, "unregister:returns-removed", "the returned value is false, `remove(&id.action).is_some()`, or `true` on the branch where remove returned Some", m.span,
                      [show(e) for e in rv])
        else:
            trues = [e for e in consts if e[1] == 1]
            okk = not nonconst and len(trues) >= 1
            # the `true` assignment is dominated by the clear() call on the non-empty branch
            clear = [bb for (bb, t, k, meth) in map_calls(F, m) if k == "bt" and meth == "clear"]
            tdefs = []
            for bb, bl in enumerate(m.blocks):
                for s in bl["s"]:
                    if s["k"] == "assign" and s["r"]["k"] == "use" and s["r"]["o"]["k"] == "const" and s["r"]["o"]["c"].get("val") == 1 \
                            and s["r"]["o"]["c"]["ty"] == "bool" and m.local_ty(s["l"]["l"]) == "bool" and not s["l"]["p"]:
                        # only the local that is returned
                        tdefs.append(bb)
            dom = cfg.dominators(m)
            dominated = [bb for bb in tdefs if any(c in dom[bb] for c in clear)]
            nonempty = False
            for c in clear:
                for (ce, inf, b) in facts_at(m, c):
                    if ce[0] == "call" and (ce[3] or "").endswith("::is_empty") and truth(inf) is False:
                        nonempty = True
            if not (okk and clear and dominated and nonempty) and clear:
                # the report may be the emptiness test itself: `let any = !actions.is_empty(); if any { actions.clear() } any`
                empt = [b_ for b_, t_ in m.calls() if (t_.get("def") or "").endswith("::is_empty")]
                alt_ok = bool(rv)
                for e in rv:
                    if e[0] == "const" and e[1] == 0:
                        continue
                    neg = e[0] == "unop" and e[1] == "Not" and deep_strip(e[2])[0] == "call" and deep_strip(e[2])[1] in empt
                    if not neg:
                        alt_ok = False; continue
                    eb = deep_strip(e[2])[1]
                    # the clear runs exactly when that test said "not empty"
                    guarded = all(any(ce[0] == "call" and ce[1] == eb and truth(inf) is False for (ce, inf, _b) in facts_at(m, c)) or
                                  any(ce[0] == "unop" and ce[1] == "Not" and deep_strip(ce[2])[0] == "call" and deep_strip(ce[2])[1] == eb and truth(inf) is True
                                      for (ce, inf, _b) in facts_at(m, c)) for c in clear)
                    always = True
                    from ..conds import switch_edges
                    for (b2, tgt, lab, exprs, t2) in switch_edges(m):
                        for x in exprs:
                            x = deep_strip(x)
                            direct = x[0] == "call" and x[1] == eb
                            negd = x[0] == "unop" and x[1] == "Not" and deep_strip(x[2])[0] == "call" and deep_strip(x[2])[1] == eb
                            if not (direct or negd):
                                continue
                            if not (set(clear) & cfg.reachable(m, b2, unwind=False)):
                                continue        # a later test of the same value (`if replace { publish }`): the clear is behind us
                            val = int(lab[3:]) if lab.startswith("sw:") else None
                            is_true = (val is not None and val != 0) or (val is None and [v for v, _ in t2["vals"]] == [0])
                            not_empty_edge = (direct and not is_true) or (negd and is_true)
                            if not_empty_edge and (cfg.reachable(m, tgt, avoid=set(clear), unwind=False) & set(m.exits())) and tgt not in clear:
                                always = False
                    if not (guarded and always):
                        alt_ok = False
                if alt_ok:
                    okk = dominated = nonempty = True
            ctx.check(okk and clear and dominated and nonempty, rid, "unregister_signal:returns-cleared", "true is produced only after clearing a slot that was not empty", m.span,
                      {"returned": [show(e) for e in rv], "clear_calls": len(clear), "true_after_clear": bool(dominated), "guarded_by_not_empty": nonempty})


def _local_reaches_return(m, l):
    """does local l flow (by plain copies) into the return place?"""
    seen = {l}; changed = True
    while changed:
        changed = False
        for bl in m.blocks:
            for st in bl["s"]:
                if st["k"] == "assign" and not st["l"]["p"] and st["r"]["k"] == "use" and st["r"]["o"].get("p") and not st["r"]["o"]["p"]["p"]:
                    if st["r"]["o"]["p"]["l"] in seen and st["l"]["l"] not in seen:
                        seen.add(st["l"]["l"]); changed = True
    return 0 in seen


SIG_FAMILY = ("sigaction", "signal", "sigset", "bsd_signal", "sysv_signal")


def _classify_site(ctx, rid, F, h, m, bb, t, ci, key, counters):
    """m: a normal form (or raw function) containing the call at bb"""
    if ci.symbol != "sigaction":
        ctx.bad(rid, key, "signal()/sigset() call: disposition changed outside the audited sigaction sites", t["sp"]); return
    newp = flow(m).term_arg(bb, 1)
    isnull = bool(newp) and all(deep_strip(e)[0] == "call" and (deep_strip(e)[3] or "").startswith("core::ptr::null") or fold(e) == 0 for e in newp)
    if isnull:
        ctx.ok(rid, key, "query: new action is null", t["sp"]); return
    loc = None
    for e in newp:
        e = deep_strip(e)
        while e[0] in ("ref", "cast"):
            e = deep_strip(e[1])
        if e[0] == "partial":
            loc = e[1]
        elif e[0] == "call" and m.term(e[1]).get("dest") and not m.term(e[1])["dest"]["p"]:
            loc = m.term(e[1])["dest"]["l"]      # `&x` where x was created by this call (mem::zeroed()) and then filled field by field
    if loc is None:
        ctx.bad(rid, key, "cannot resolve the new action struct", t["sp"], [show(e) for e in newp]); return
    pf = partial_fields(m, loc, (bb, len(m.stmts(bb))))
    hv = pf.get("sa_sigaction") or pf.get("sa_handler") or []
    is_handler = bool(hv) and all(mentions(e, lambda x: x[0] == "const" and x[5] == h.id) for e in hv)
    is_dfl = bool(hv) and all(fold(e) == 0 for e in hv)
    if is_handler:
        counters["install"] += 1
        fv = pf.get("sa_flags") or []
        vals = [fold(e) for e in fv]
        ctx.check(vals and all(v == (SA_RESTART | SA_SIGINFO) for v in vals), rid, key, "install: sa_flags folds to SA_RESTART | SA_SIGINFO", t["sp"],
                  {"sa_flags": [show(e) for e in fv], "folded": vals, "expected": SA_RESTART | SA_SIGINFO})
        others = [k for k in pf if k not in ("sa_sigaction", "sa_handler", "sa_flags")]
        ctx.check(not others, rid, key + ":zeroed-rest", "remaining fields stay zeroed (empty sa_mask)", t["sp"], others)
    elif is_dfl:
        # allowed only when the process is about to die: no normal return of the entry point after the restore, and an abort behind it
        after = cfg.reachable_after(m, bb, unwind=False)
        returns = bool(after & set(m.exits()))
        term = [b for b in after if m.term(b)["k"] == "call" and m.term(b).get("f") is not None and F.inst[m.term(b)["f"]].symbol == "abort"]
        ctx.check(not returns and bool(term), rid, key, "SIG_DFL restore only on the terminating path of default emulation (followed by raise + abort, never returns)", t["sp"],
                  {"entry_point": m.name, "returns_after_restore": returns, "abort_after_restore": bool(term)})
    else:
        ctx.bad(rid, key, "sigaction installs something that is neither the dispatcher nor SIG_DFL", t["sp"], {k: [show(e) for e in v] for k, v in pf.items()})


def rule_d(ctx):
    F = ctx.F
    rid = "C05.d"
    ctx.rule(rid, "disposition: every sigaction/signal call site is an install (new action = the dispatcher, flags fold to SA_RESTART|SA_SIGINFO), "
                  "a query (null new action) or the SIG_DFL restore of default emulation (never returns normally afterwards); each site is judged in "
                  "the normal form of every public entry point that reaches it", floor=3)
    h = handler(F)
    counters = {"install": 0}
    pred = lambda c: c.kind == "foreign" and c.symbol in SIG_FAMILY
    covered = set()
    for crate in ("signal_hook_registry", "signal_hook"):
        for fn, i in reg.public_fns(F, crate, ("Fn", "AssocFn")):
            if not any(pred(F.inst[x]) for x in F.reach([i])):
                continue
            n = reg.RN(F, i)
            for (bb, t, ci) in call_sites(F, n, pred):
                ctx.fn(i)
                srcf = inline.origin_of(F, n, bb)
                covered.add((srcf.defp, t["sp"]))
                _classify_site(ctx, rid, F, h, n, bb, t, ci, "%s@%s" % (ci.symbol, keyname(srcf.name)), counters)
    # sites no public entry point reaches through direct calls (closures handed to the registry, dead helpers): judged in their own frame
    for m in F.inst:
        if m.body is None or not m.local or is_user_code(m):
            continue
        for (bb, t, ci) in call_sites(F, m, pred):
            if (m.defp, t["sp"]) in covered:
                continue
            ctx.fn(m)
            _classify_site(ctx, rid, F, h, m, bb, t, ci, "%s@%s" % (ci.symbol, keyname(m.name)), counters)
    ctx.check(counters["install"] >= 1, rid, "install:exists", "%d installing sigaction site(s)" % counters["install"], None, "no installing site found")


def rule_e(ctx):
    F = ctx.F
    rid = "C05.e"
    ctx.rule(rid, "ids cannot be forged: SigId has only private fields and no public constructor", floor=1)
    a = F.adt("signal_hook_registry::SigId")
    priv = all(not f["pub"] for f in a["variants"][0]["fields"])
    ctors = []
    for c, fn in F.crate_items("fns"):
        pass
    ctx.check(priv, rid, "sigid:private-fields", "all fields of SigId are private (construction outside the registry is a compile error; witness in the thorough tier)",
              a["span"], [f for f in a["variants"][0]["fields"] if f["pub"]])


def rule_f(ctx):
    """a registration adds its action: in every public registering function (helpers inlined) every path to the publish of the new snapshot
    runs through an insert of the `action` argument into an action map, and a freshly made slot is put into the signal map before the
    publish. (Returning a fresh id for an action that is in no snapshot breaks "per-signal ordered multiset" at the first step.)"""
    F = ctx.F
    rid = "C05.f"
    ctx.rule(rid, "register adds: on every path to the publish the action argument is inserted into an action map, and a newly created slot is inserted "
                  "into the signal map", floor=4)
    from .C02 import registering
    from .C14 import registry_effects
    from .util import adt_constructions
    for fn, r0, r in registering(F):
        ctx.fn(r0)
        name = fn["path"].split("::")[-1]
        inst, queries, pubs, fbs = registry_effects(F, r)
        if not pubs:
            raise AnchorLost("publish of the data snapshot in %s" % name)
        fl = flow(r)
        act_param = r.body["argc"]            # the action is the last parameter of every registering function
        ins = set(); slot_ins = set()
        for bb, t in r.calls():
            if r.blocks[bb].get("dead") or t.get("f") is None:
                continue
            ci = F.inst[t["f"]]
            if re.match(r"^alloc::collections::btree::map::BTreeMap::<.*>::insert$", ci.name) or re.match(r"^alloc::collections::btree::map::entry::.*::(insert|or_insert|or_insert_with|insert_entry)$", ci.name) \
                    or re.match(r"^(std|hashbrown|alloc)::.*::(insert|or_insert|or_insert_with|insert_entry|push|push_back)$", ci.name):
                vals = [e for k in range(1, len(t["args"])) for e in fl.term_arg(bb, k)]
                d = deps(r, vals)
                if ("param", act_param) in d and "ActionId" in ci.name:
                    ins.add(bb)
                if "signal_hook_registry::Slot" in ci.name and "ActionId" not in ci.name.split("Slot")[0]:
                    slot_ins.add(bb)
        for pb, pt in pubs:
            okk, leak = cfg.every_path_passes(r, 0, [pb], ins, unwind=False)
            ctx.check(bool(ins) and okk, rid, "action-inserted-before-publish@%s" % name, "%s: every path to the publish inserts the action argument into an action map" % name, pt["sp"],
                      {"insert_sites": [r.term(b)["sp"].split("/")[-1] for b in sorted(ins)],
                       "path_without_insert": [r.term(b)["sp"].split("/")[-1] for b in (cfg.path(r, 0, pb, avoid=ins, unwind=False) or [])][:10] if not okk else None})
        made = adt_constructions(r, "signal_hook_registry::Slot")
        for (sb, ssi, rv) in made:
            if r.blocks[sb].get("dead"):
                continue
            for pb, pt in pubs:
                if pb not in cfg.reachable(r, sb, unwind=False):
                    continue
                okk, leak = cfg.every_path_passes(r, sb, [pb], slot_ins, unwind=False)
                ctx.check(bool(slot_ins) and okk, rid, "new-slot-inserted@%s" % name, "%s: a newly created slot is put into the signal map before the publish" % name, rv.get("sp") or pt["sp"],
                          {"map_inserts": [r.term(b)["sp"].split("/")[-1] for b in sorted(slot_ins)]})


def run(ctx):
    ctx.guarded("C05.f", rule_f)
    ctx.guarded("C05.a", rule_a)
    ctx.guarded("C05.b", rule_b)
    ctx.guarded("C05.c", rule_c)
    ctx.guarded("C05.d", rule_d)
    ctx.guarded("C05.e", rule_e)
    ctx.note("not decided: equivalence to the abstract multiset model over arbitrary histories; u128 id overflow (2^128 registrations)")
