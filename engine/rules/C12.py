"""C12 — a Signals instance survives rejected additions and cleans up what it owns."""
import re
from .. import cfg
from ..anchors import action_closures, is_user_code
from ..facts import strip_generics, keyname, AnchorLost
from ..flow import flow, deep_strip, strip, show, mentions, fold
from ..conds import facts_at, truth
from ..locks import lockinfo
from .lockrules import poison_rules, panic_in_drop, drop_impls
from .C03 import undischarged_sites
from .util import call_sites, result_gates, adt_constructions, escapes, defp_is, closure_constructions

def ids_lock(F):
    """the mutex protecting the table of registration ids, by type: a `Mutex<..Option<SigId>..>` field of a signal-hook struct
    (lock identifiers are `<owner type>.<field>`)"""
    out = []
    adts = {a["path"]: a for c, a in F.crate_items("adts")}

    def holds_ids(ty, depth=0):
        """does a value of this type hold registration ids — directly, or inside a private signal-hook wrapper (`SignalIdTable(Vec<Option<SigId>>)`)?"""
        if "signal_hook_registry::SigId" in ty:
            return True
        base = re.sub(r"<.*$", "", ty)
        a2 = adts.get(base)
        if a2 is None or not base.startswith("signal_hook::") or depth > 3:
            return False
        return any(holds_ids(f2["ty"], depth + 1) for v2 in a2["variants"] for f2 in v2["fields"])
    for c, a in F.crate_items("adts"):
        if not a["path"].startswith("signal_hook::"):
            continue
        for v in a["variants"]:
            for f in v["fields"]:
                mm = re.match(r"^std::sync::(poison::)?mutex::Mutex<(.*)>$", f["ty"])
                if mm and holds_ids(mm.group(2)):
                    out.append("%s.%s" % (a["path"], f["name"]))
    if len(out) != 1:
        raise AnchorLost("the mutex protecting the table of registration ids (Mutex<..Option<SigId>..> field): found %s" % out)
    return out[0]
DELIVERY_TYPES = ("signal_hook::iterator::backend::DeliveryState", "signal_hook::iterator::backend::Handle",
                  "signal_hook::iterator::backend::SignalDelivery", "signal_hook::iterator::SignalsInfo")


def rule_a(ctx):
    poison_rules(ctx, "C12.a", lock_filter=lambda l, _k=ids_lock(ctx.F): _k in l, floor=1)
    from .lockrules import drops_reaching
    ds = [d for d in drops_reaching(ctx.F, "signal_hook_registry::unregister") if d.crate == "signal_hook"]
    panic_in_drop(ctx, "C12.a2", None, drops=ds)
    from .lockrules import cleanup_on_every_path
    cleanup_on_every_path(ctx, "C12.a3")


def rule_b(ctx):
    F = ctx.F
    _FX[0] = F
    rid = "C12.b"
    ctx.rule(rid, "lazy slot initialisation tolerates a retry after a rejected addition: no explicit panic site is reachable "
                  "from any Exfiltrator::init, and a non-trivial init publishes its pointer only over the uninitialised (null) state",
             floor=3)
    inits = [i for i in F.inst if i.local and i.body is not None and re.search(r" as signal_hook::iterator::exfiltrator::sealed::Exfiltrator>::init$", i.name)]
    if len(inits) < 3:
        raise AnchorLost("expected Exfiltrator::init for the three exfiltrators, found %d" % len(inits))
    for it in inits:
        ctx.fn(it)
        und, cone = undischarged_sites(ctx, F, [it], scope="channel")
        key = "init:%s" % keyname(it.name)
        ctx.check(not und, rid, key, "%s reaches no explicit panic site (so a second call after a failed add_signal is harmless)" % it.name,
                  it.span, [{"frame": fm.name[:140], "site": s[1], "where": s[3]} for (fm, s, ch) in und[:4]])
        # atomic writes to the slot pointer inside init's cone (workspace frames)
        for m in cone.members:
            if not (m.local and m.body is not None):
                continue
            for bb, t in m.calls():
                if t.get("f") is None:
                    continue
                d = F.inst[t["f"]].defp
                mm = re.match(r"^core::sync::atomic::Atomic::<\*mut T>::(store|swap|compare_exchange|compare_exchange_weak|fetch_\w+)$", d)
                if not mm:
                    continue
                op = mm.group(1)
                k2 = "init-publish:%s@%s" % (op, keyname(m.name))
                if op.startswith("compare_exchange"):
                    exp = [fold(e) for e in flow(m).term_arg(bb, 1)]
                    isnull = all(_is_null(e) for e in flow(m).term_arg(bb, 1))
                    ctx.check(isnull, rid, k2, "slot pointer installed by compare_exchange from null (an initialised slot is kept)", t["sp"],
                              {"expected": [show(e) for e in flow(m).term_arg(bb, 1)]})
                else:
                    ctx.bad(rid, k2, "slot pointer written by `%s` in init: a retry would replace a channel a handler may be using" % op,
                            t["sp"], "init must observe the uninitialised state (CAS from null)")


        # the channel that was just published stays: assuming the installing CAS never fails, nothing is freed after it (only the loser of
        # the race — the box that was *not* installed — is disposed of)
        from .. import inline
        from ..conds import switch_edges
        n = inline.cached(F, it, keep=lambda c: False, tag="c12b-full", hof=True, thread=True,
                          inlinable=lambda c: inline.default_inlinable(F, c, True) or (c is not None and c.body is not None and bool(inline.SHAPE_PRED_RE.match(c.name))))
        for bb, t in n.calls():
            if n.blocks[bb].get("dead") or not re.match(r"^core::sync::atomic::Atomic::<\*mut T>::compare_exchange(_weak)?$", t.get("def") or ""):
                continue
            cut = set(); seen_test = False

            def ev(e, dval):
                """value of a test expression when the CAS result's discriminant is dval (0 = Ok, 1 = Err); None if it depends on more"""
                e = deep_strip(e)
                if e[0] == "discr":
                    x = deep_strip(e[1])
                    return dval if (x[0] == "call" and x[1] == bb) else None
                if e[0] == "const":
                    return fold(e)
                if e[0] == "unop" and e[1] == "Not":
                    v = ev(e[2], dval)
                    return None if v is None else (1 - v if v in (0, 1) else None)
                if e[0] == "binop" and e[1] in ("Eq", "Ne"):
                    a_, b_ = ev(e[2], dval), ev(e[3], dval)
                    if a_ is None or b_ is None:
                        return None
                    return int((a_ == b_) == (e[1] == "Eq"))
                return None
            for (b2, tgt, lab, exprs, t2) in switch_edges(n):
                for e in exprs:
                    if not mentions(deep_strip(e), lambda x: x[0] == "call" and x[1] == bb):
                        continue
                    v_ok, v_err = ev(e, 0), ev(e, 1)
                    if v_ok is None or v_err is None or v_ok == v_err:
                        continue
                    seen_test = True
                    vals = [v for v, _ in t2["vals"]]
                    takes = (lambda v: (int(lab[3:]) == v) if lab.startswith("sw:") else (v not in vals))
                    if takes(v_err) and not takes(v_ok):
                        cut.add((b2, tgt))
            if not seen_test:
                continue
            n2 = inline.assuming(F, n, cut)
            after = cfg.reachable(n2, bb, unwind=False) if not n2.blocks[bb].get("dead") else set()
            frees = [n2.term(b)["sp"] for b, t3 in n2.calls() if b in after and b != bb and not n2.blocks[b].get("dead") and (t3.get("def") or "") == "alloc::boxed::Box::<T>::from_raw"]
            ctx.check(not frees, rid, "init-keeps-published:%s" % keyname(it.name), "after a successful install of the slot pointer nothing is freed (the published channel stays)",
                      t["sp"], {"frees_on_the_success_path": frees})


_FX = [None]


def _is_null(e):
    e = deep_strip(e)
    if e[0] == "field" and deep_strip(e[1])[0] == "const" and deep_strip(e[1])[2] and _FX[0] is not None:
        # a field of a named constant (`ChanPtr::UNSET.0`): read the constant's value
        try:
            v = _FX[0].const(deep_strip(e[1])[2])["val"]
            if isinstance(v, dict) and "fields" in v:
                for k, (fname, fval) in enumerate(v["fields"]):
                    if k == e[3] or fname == e[2]:
                        return fval == 0
        except Exception:
            return False
    if e[0] == "const":
        return e[1] == 0
    if e[0] == "call" and e[3] and e[3].startswith("core::ptr::null"):
        return True
    if e[0] == "cast":
        return _is_null(e[1])
    return False


def rule_c(ctx):
    F = ctx.F
    rid = "C12.c"
    ctx.rule(rid, "the clean-up that unregisters every recorded id (iterator over the whole table, no skip/take) runs when the *owner of the id "
                  "table* is dropped — the table is shared by all handle clones, so tying the clean-up to anything that dies earlier leaks later "
                  "additions; the table entry written by add_signal is the id returned by this instance's own registration", floor=4)
    # the owner of the id table: the workspace ADT with a Mutex<Vec<Option<SigId>>> field
    owners = [ids_lock(F).rsplit(".", 1)[0]]
    if len(owners) != 1:
        raise AnchorLost("owner of the registered-ids table: %s" % owners)
    owner = owners[0]
    # clean-up functions: a loop that calls registry::unregister
    cleaners = []
    for i in F.inst:
        if i.body is None or not i.local or i.crate != "signal_hook":
            continue
        un = call_sites(F, i, lambda c: c.defp == "signal_hook_registry::unregister")
        if un and any(cfg.in_cycle(i, bb) for bb, _, _ in un):
            cleaners.append(i)
    ctx.check(bool(cleaners), rid, "cleanup:exists", "a clean-up loop calling unregister exists", None, "no function unregisters the recorded ids in a loop")
    glue = [i for i in F.inst if i.kind == "drop_glue" and i.drop_ty == owner]
    reach = set(F.reach(glue)) if glue else set()
    tied = [c for c in cleaners if c.id in reach]
    ctx.check(bool(glue) and bool(tied), rid, "cleanup:tied-to-table-owner", "dropping %s (the shared owner of the id table) runs the clean-up" % owner.split("::")[-1], None,
              {"cleanup_functions": [c.name for c in cleaners], "reached_from_drop_of_owner": [c.name for c in tied],
               "why": "handles share the table through an Arc and can add signals after the instance is gone; those registrations would never be removed"})
    for d in (tied or cleaners):
        ctx.fn(d)
        un = call_sites(F, d, lambda c: c.defp == "signal_hook_registry::unregister")
        bad_adapters = [F.inst[t["f"]].defp for _, t in d.calls() if t.get("f") is not None and
                        re.search(r"::(take|skip|step_by|take_while|skip_while|nth|last)$", F.inst[t["f"]].defp)]
        whole = [F.inst[t["f"]].defp for _, t in d.calls() if t.get("f") is not None and
                 re.search(r"(slice::<impl \[T\]>::iter|IntoIterator>::into_iter|Vec::<T, A>::iter|slice::iter::Iter)", F.inst[t["f"]].defp)]
        ctx.check(whole and not bad_adapters, rid, "cleanup:whole-table", "the loop iterates the whole id table (no take/skip/step_by adapter)", d.span, {"adapters": bad_adapters, "source": whole})
        for bb, t, ci in un:
            ex = flow(d).term_arg(bb, 0)
            okk = all(mentions(e, lambda x: x[0] == "call" and x[3] and x[3].endswith("Iterator::next")) or
                      mentions(e, lambda x: x[0] == "downcast") for e in ex)
            ctx.check(okk, rid, "cleanup:arg-is-item", "the id passed to unregister is the loop item", t["sp"], [show(e) for e in ex])
    # add_signal: stored value is the result of the registration
    from .nf import NF
    for h0 in F.some("signal_hook::iterator::backend::Handle::add_signal"):
        ctx.fn(h0)
        h = NF(F, h0)
        stores = []
        for bb, bl in enumerate(h.blocks):
            for si, s in enumerate(bl["s"]):
                if s["k"] == "assign" and any(p["k"] == "deref" for p in s["l"]["p"]) and "SigId" in h.local_ty(s["l"]["l"]):
                    stores.append((bb, si, s))
        if not stores:
            raise AnchorLost("add_signal no longer records the id through a table reference")
        for bb, si, s in stores:
            v = flow(h).rvalue(s["r"], (bb, si))
            okk = all(mentions(e, lambda x: x[0] == "call" and x[3] and ("Try::branch" in x[3] or "AddSignal" in x[3])) for e in v)
            ctx.check(okk, rid, "add:records-own-id", "the recorded id is the one returned by this instance's registration", s["sp"],
                      [show(e) for e in v])


def _ws_adt_fields(F):
    d = {}
    for c, a in F.crate_items("adts"):
        d[a["path"]] = [f["ty"] for v in a["variants"] for f in v["fields"]]
    return d


def type_reaches(F, ty, targets, seen=None):
    """does type string `ty` (transitively through workspace ADT fields and dyn implementors) mention one of targets?"""
    seen = seen if seen is not None else set()
    if any(t in ty for t in targets):
        return True
    adts = _ws_adt_fields(F)
    for p, fields in adts.items():
        if p in ty and p not in seen:
            seen.add(p)
            for f in fields:
                if type_reaches(F, f, targets, seen):
                    return True
    for (dyn, impl) in F.dyn_impls:
        if dyn in ty and ("dyn:" + dyn + impl) not in seen:
            seen.add("dyn:" + dyn + impl)
            if type_reaches(F, impl, targets, seen):
                return True
    return False


def rule_d(ctx):
    F = ctx.F
    rid = "C12.d"
    ctx.rule(rid, "no reference cycle and no leak: the type carrying the unregistering Drop is not reachable from what the action "
                  "closure captures; no forget/ManuallyDrop/ptr::read instance on delivery types; with_pipe drops the half-built "
                  "instance on its error exit", floor=5)
    n = 0
    for cty, u in action_closures(F).items():
        if "signal_hook::iterator::backend" not in cty:
            continue
        n += 1
        bad = [up for up in u["upvars"] if type_reaches(F, up, DELIVERY_TYPES)]
        ctx.check(not bad, rid, "captures:%s" % re.sub(r"signal_hook::iterator::(backend|exfiltrator)::(\w+::)?", "", cty)[:140], "iterator action captures nothing that owns the delivery state "
                  "(captured: %s)" % ", ".join(re.sub(r"[\w:]+::", "", x) for x in u["upvars"]), u["span"], {"captures_reaching_delivery_state": bad})
    if n < 3:
        raise AnchorLost("expected the three iterator action closures, found %d" % n)
    esc = escapes(F, lambda a: any(t in a for t in DELIVERY_TYPES),
                  clone_pred=lambda a: any(a == t or a.startswith(t + "<") for t in DELIVERY_TYPES))
    esc = [e for e in esc if not is_user_code(e) and not re.match(r"^<signal_hook::iterator::backend::Handle as core::clone::Clone>::clone", e.name)]
    ctx.check(not esc, rid, "no-escape", "no forget/ManuallyDrop::new/ptr::read/… instance on a delivery type in the monomorphic program",
              None, [e.name[:200] for e in esc])
    for wp in F.some(name_re=r"^signal_hook::iterator::backend::SignalDelivery::<.*>::with_pipe::<", what="SignalDelivery::with_pipe", kind="item"):
        ctx.fn(wp)
        aggs = adt_constructions(wp, "signal_hook::iterator::backend::SignalDelivery")
        if not aggs:
            raise AnchorLost("with_pipe no longer builds the instance before registering")
        drops = {bb for bb, t in wp.drops() if "signal_hook::iterator::backend::SignalDelivery<" in t["ty"]}
        moved = set()
        for bb, bl in enumerate(wp.blocks):
            for s in bl["s"]:
                if s["k"] == "assign" and s["l"]["l"] == 0 and s["r"]["k"] == "aggregate":
                    moved.add(bb)
        for (bb, si, rv) in aggs:
            r = cfg.reachable_after(wp, bb, avoid=drops | moved, unwind=False)
            ctx.check(not (r & set(wp.exits())), rid, "with_pipe:raii", "every path from building the instance to return either returns it "
                      "or drops it (registrations undone by Drop)", wp.blocks[bb]["s"][si]["sp"], "a return path leaks the half-built instance")


def rule_e(ctx):
    F = ctx.F
    rid = "C12.e"
    ctx.rule(rid, "re-adding a watched signal is a no-op: the registration is control-dependent on the table entry for the same "
                  "index being None; the entry is written only after the registration returned Ok, under the same index", floor=3)
    from .nf import NF
    for h0 in F.some("signal_hook::iterator::backend::Handle::add_signal"):
        ctx.fn(h0)
        h = NF(F, h0)
        regs = [(bb, t) for bb, t in h.calls() if t.get("f") is not None and
                re.search(r"AddSignal>::add_signal", F.inst[t["f"]].name)]
        if not regs:
            raise AnchorLost("Handle::add_signal no longer calls AddSignal::add_signal")
        for bb, t in regs:
            facts = facts_at(h, bb)
            guard = None
            for (ce, inf, sb) in facts:
                if ce[0] == "call" and ce[3] and ce[3].endswith("Option::<T>::is_some") and truth(inf) is False:
                    guard = (ce, sb)
                if ce[0] == "call" and ce[3] and ce[3].endswith("Option::<T>::is_none") and truth(inf) is True:
                    guard = (ce, sb)
                if ce[0] == "discr" and inf == ("eq", 0) and mentions(ce, lambda x: x[0] == "call" and x[3] and "Index" in x[3]):
                    guard = (ce, sb)
            ctx.check(guard is not None, rid, "add:guarded-by-none", "registration happens only when the table entry is None", t["sp"],
                      {"facts": [(show(c), i) for c, i, _ in facts]})
            if guard is None:
                continue
            # the entry examined is table[signal as usize]: the guard's operand derives from an Index/IndexMut call whose index is `signal`
            ce, sb = guard
            srcs = [ce]
            if ce[0] == "call":
                srcs = list(flow(h).term_arg(ce[1], 0))
            idx_calls = set()
            for a in srcs:
                def grab(x):
                    if x[0] == "call" and x[3] and "Index" in x[3]:
                        idx_calls.add(x[1])
                    return False
                mentions(a, grab)
            idx_ok = bool(idx_calls) and all(_idx_is_param(h, cb, 2) for cb in idx_calls)
            ctx.check(idx_ok, rid, "add:guard-index", "the examined entry is table[signal as usize] for this call's `signal`", t["sp"],
                      show(ce))
            # the write: an assignment through the reference an IndexMut call on the table returned
            n_w = 0
            fl = flow(h)
            for wbb, bl in enumerate(h.blocks):
                for si, st in enumerate(bl["s"]):
                    if st["k"] != "assign" or not st["l"]["p"] or st["l"]["p"][0]["k"] != "deref" or "SigId" not in h.local_ty(st["l"]["l"]):
                        continue
                    base = fl.local(st["l"]["l"], (wbb, si))
                    im = set()
                    for e in base:
                        def grab2(x):
                            if x[0] == "call" and x[3] and "IndexMut" in x[3]:
                                im.add(x[1])
                            return False
                        mentions(e, grab2)
                    if not im:
                        continue
                    n_w += 1
                    same = all(_idx_is_param(h, cb, 2) for cb in im)
                    g, why = result_gates(F, h, bb, wbb)
                    ctx.check(same and g, rid, "add:write-after-ok", "table[signal] is written only after the registration returned Ok",
                              st["sp"], {"same_index": same, "gated": why})
            if n_w == 0:
                raise AnchorLost("add_signal no longer writes the id table through IndexMut")


def _idx_is_param(h, bb, n):
    """is the index argument of the Index/IndexMut call at bb `param n as usize`?"""
    for e in flow(h).term_arg(bb, 1):
        e = deep_strip(e)
        while e[0] == "cast":
            e = deep_strip(e[1])
        if not (e[0] == "param" and e[1] == n):
            return False
    return True


def rule_f(ctx, rid="C12.f"):
    """re-adding is a no-op also under concurrency: the 'already watched?' check, the registration and the recording of the id form one
    critical section of the id-table mutex — otherwise two threads adding the same signal both register (two actions, two wake bytes per
    delivery) and one registration is never removed"""
    F = ctx.F
    ctx.rule(rid, "Handle::add_signal holds the id-table mutex from the check through the registration to the recording of the id (one "
                  "acquisition; the registration call and the table write lie inside its critical section)", floor=2)
    L = lockinfo(F)
    from .nf import NF
    for h0 in F.some("signal_hook::iterator::backend::Handle::add_signal"):
        ctx.fn(h0)
        h = NF(F, h0)
        acqs, regions = L.analyse_body(h)
        IDS = ids_lock(F)
        acq_w = [(bb, lid) for (bb, lid, kind) in acqs if IDS in lid]
        n = len(acq_w)
        ctx.check(n == 1, rid, "one-acquisition", "the id table is locked exactly once in add_signal (%d acquisition(s))" % n, h0.span,
                  [h.term(bb)["sp"] for bb, _ in acq_w])
        if n < 1:
            continue
        lock = acq_w[0][1]
        reg = regions.get(lock, set())
        regs = [(bb, t) for bb, t in h.calls() if t.get("f") is not None and re.search(r"AddSignal>::add_signal", F.inst[t["f"]].name)]
        writes = _table_writes(h)
        okk = bool(regs) and all(bb in reg for bb, _ in regs) and bool(writes) and all(bb in reg for bb, _, _ in writes)
        ctx.check(okk and n == 1, rid, "register-and-record-under-lock", "registration and recording happen while that lock is held", regs[0][1]["sp"] if regs else h0.span,
                  {"registration_under_lock": [bb in reg for bb, _ in regs], "record_under_lock": [bb in reg for bb, _, _ in writes]})


def rule_g(ctx, rid="C12.g"):
    """every registration is on record before anything else can refuse: in whichever function the iterator's registration call
    (`AddSignal::add_signal`) is visible, its Ok outcome leads to the write of the id into the table before the next registration call and
    before the function returns. A batch that registers first and records afterwards loses the ids of the earlier members when a later
    member is refused by panic: the actions stay in the registry, the destructor finds an empty table."""
    F = ctx.F
    ctx.rule(rid, "from the Ok outcome of every registration call made for an iterator instance, the id is written into the id table before another "
                  "registration call and before the return (no batch that records only at the end)", floor=1)
    from .nf import NF, boundary_callers
    from ..conds import switch_edges
    REG = r"AddSignal>::add_signal( - virtual#\d+)?$"
    callers = F.callers()
    direct = set()
    for i in F.inst:
        if re.search(REG, i.name):
            for (c, k, bb) in callers.get(i.id, []):
                if k == "call" and F.inst[c].local and F.inst[c].crate == "signal_hook":
                    direct.add(c)
    frames = sorted(boundary_callers(F, direct)) if direct else []
    n_reg = 0
    for fid in frames:
        h0 = F.inst[fid]
        if not (h0.local and h0.body is not None):
            continue
        h = NF(F, h0)
        regs = [(bb, t) for bb, t in h.calls() if t.get("f") is not None and re.search(REG, F.inst[t["f"]].name) and not h.blocks[bb].get("dead")]
        if not regs:
            continue
        ctx.fn(h0)
        writes = {bb for bb, _, _ in _table_writes(h)}
        rets = {b for b in range(h.nblocks()) if h.term(b)["k"] == "return" and not h.blocks[b].get("dead")}
        for bb, t in regs:
            n_reg += 1
            oks = set()
            for (b2, tgt, lab, exprs, t2) in switch_edges(h):
                if lab == "sw:0" and any(deep_strip(e)[0] == "discr" and mentions(deep_strip(e), lambda x: x[0] == "call" and x[1] == bb) for e in exprs):
                    oks.add(tgt)
            key = "record-before-next:%s" % keyname(h0.name)
            if not oks:
                ctx.bad(rid, key, "the result of the registration call is not examined in %s (cannot tell where the Ok outcome goes)" % h0.name, t["sp"])
                continue
            r = set()
            for o in oks:
                if o not in writes:
                    r |= cfg.reachable(h, o, avoid=writes, unwind=False)
            hit = sorted(r & ({b for b, _ in regs} | rets))
            ctx.check(bool(writes) and not hit, rid, key, "after a successful registration the id is recorded before the next registration and before returning", t["sp"],
                      {"table_writes": len(writes), "reached_without_recording": [h.term(b)["sp"].split("/")[-1] for b in hit][:4]})
    if n_reg < 1:
        raise AnchorLost("no call of AddSignal::add_signal found in a signal-hook function")


def _table_writes(h):
    """assignments through the reference an IndexMut call on the id table returned: [(bb, stmt index, IndexMut call blocks)]"""
    out = []
    fl = flow(h)
    for wbb, bl in enumerate(h.blocks):
        if bl.get("dead"):
            continue
        for si, st in enumerate(bl["s"]):
            if st["k"] != "assign" or not st["l"]["p"] or st["l"]["p"][0]["k"] != "deref" or "SigId" not in h.local_ty(st["l"]["l"]):
                continue
            base = fl.local(st["l"]["l"], (wbb, si))
            im = set()
            for e in base:
                def grab2(x):
                    if x[0] == "call" and x[3] and "IndexMut" in x[3]:
                        im.add(x[1])
                    return False
                mentions(e, grab2)
            if im:
                out.append((wbb, si, im))
    return out


def run(ctx):
    from .. import fixtures
    ctx.guarded("C12.f", rule_f)
    ctx.guarded("C12.FX", lambda c: fixtures.run(c, ['escapes']))
    ctx.guarded("C12.a", rule_a)
    ctx.guarded("C12.b", rule_b)
    ctx.guarded("C12.c", rule_c)
    ctx.guarded("C12.d", rule_d)
    ctx.guarded("C12.e", rule_e)
    ctx.guarded("C12.g", rule_g)
    ctx.note("not decided: the behavioural equivalence 'instance exactly as before' over arbitrary call sequences; OS-level fd closure")
    ctx.assume("the documented panics of add_signal (forbidden / negative / too large) are the explicit panic sites found in its cone")
