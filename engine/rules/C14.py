"""C14 — forbidden and invalid signals are refused before anything changes."""
import re
from .. import cfg
from ..anchors import handler, is_user_code
from ..conds import facts_at, truth
from ..effects import _tsv
from ..facts import keyname, AnchorLost
from ..flow import flow, deps, deep_strip, strip, show, mentions, fold
from .util import call_sites, result_gates
from .lockrules import poison_rules
from .C04 import installers
from .C02 import _register_impls, DATA_T


def def_graph(F):
    """def-level call graph over all workspace crates (CHA for trait methods, closures as callees of their parent)"""
    fns = {}
    for c, f in F.crate_items("fns"):
        fns[f["path"]] = f
    impls_of = {}     # trait method path -> [impl fn paths]
    for p, f in fns.items():
        if f.get("trait_impl"):
            meth = p.split("::")[-1]
            impls_of.setdefault(f["trait_impl"] + "::" + meth, []).append(p)
    edges = {}
    for p, f in fns.items():
        out = set()
        for c in f["callees"]:
            d = c["def"]
            if d in fns:
                out.add(d)
            if c.get("trait_method") and d in impls_of:
                out.update(impls_of[d])
            # generic-stripped match (`Type::<T>::f` vs `Type::<'a, T>::f`)
        for c in f["closures"] + f["fn_values"]:
            if c in fns:
                out.add(c)
        edges[p] = out
    return fns, edges


def reach_def(edges, start, removed=()):
    seen = set(); st = [start]
    while st:
        x = st.pop()
        if x in seen or x in removed:
            continue
        seen.add(x)
        st.extend(edges.get(x, ()))
    return seen


def checker_and_target(F):
    """checker: the function that tests membership in FORBIDDEN and panics; target: the function calling the installer"""
    checkers = set()
    for i in F.inst:
        if i.body is None or not i.local or i.crate != "signal_hook_registry":
            continue
        uses = False
        for bl in i.blocks:
            for s in bl["s"]:
                if s["k"] == "assign" and s["r"]["k"] == "use" and s["r"]["o"]["k"] == "const" and \
                        (s["r"]["o"]["c"].get("def") or "").startswith("signal_hook_registry::FORBIDDEN"):
                    uses = True
        if uses:
            checkers.add(i.defp)
    ins = {i.defp for i in installers(F)}
    targets = {F.inst[cid].defp for i in installers(F) for (cid, k, bb) in F.callers().get(i.id, []) if k == "call"}
    if len(checkers) != 1 or len(targets) != 1:
        raise AnchorLost("forbidden-signal checker %s / registering function %s" % (sorted(checkers), sorted(targets)))
    return checkers.pop(), targets.pop()


def rule_a(ctx):
    F = ctx.F
    rid = "C14.a"
    ctx.rule(rid, "call-graph cut: with the function containing the FORBIDDEN assertion removed, the registering function is unreachable from every "
                  "public function of the workspace except the documented `*_unchecked` entry points", floor=20)
    fns, edges = def_graph(F)
    checker, target = checker_and_target(F)
    ctx.note("checker = %s, registering function = %s" % (checker, target))
    if checker not in fns or target not in fns:
        raise AnchorLost("def-level graph lacks %s or %s" % (checker, target))
    n = 0
    for p, f in sorted(fns.items()):
        if not f["pub"] or f["kind"] == "Closure":
            continue
        full = reach_def(edges, p)
        if target not in full:
            continue
        n += 1
        cut = reach_def(edges, p, removed={checker})
        name = p.split("::")[-1]
        unchecked_api = "unchecked" in name and p.startswith("signal_hook_registry::")
        key = "entry:%s" % p
        if unchecked_api:
            ctx.ok(rid, key, "documented unchecked entry point (bypasses the check by contract)", f["span"])
        else:
            ctx.check(target not in cut, rid, key, "public entry point %s reaches the registering function only through the forbidden-signal check" % p, f["span"],
                      {"bypass": _path(edges, p, target, {checker})})
    if n < 10:
        raise AnchorLost("only %d public functions reach the registering function (expected >= 10 incl. flags, pipe, iterators, adapters)" % n)


def _path(edges, src, dst, removed):
    from collections import deque
    prev = {src: None}; q = deque([src])
    while q:
        x = q.popleft()
        if x == dst:
            out = []
            while x is not None:
                out.append(x); x = prev[x]
            return out[::-1]
        for y in edges.get(x, ()):
            if y not in prev and y not in removed:
                prev[y] = x; q.append(y)
    return None


def membership_tests(F, m):
    """calls in m that decide `signal in FORBIDDEN`: `FORBIDDEN.contains(&signal)` or `FORBIDDEN.iter().any(|s| *s == signal)` (and
    the like). Returns ([(bb, term)], {bb: info})"""
    fl = flow(m)
    out = []; info = {}
    for bb, t in m.calls():
        d = t.get("def") or ""
        if not (m.local_ty(t["dest"]["l"]) == "bool" if t.get("dest") and not t["dest"]["p"] else False):
            continue
        dd = deps(m, [e for ai in range(len(t["args"])) for e in fl.term_arg(bb, ai)])
        uses_forbidden = any(x[0] == "const" and (x[2] or "").startswith("signal_hook_registry::FORBIDDEN") for x in dd)
        if not uses_forbidden:
            continue
        name = d.split("::")[-1]
        if name == "contains":
            a1 = [deep_strip(e) for e in fl.term_arg(bb, 1)]
            needle = all(strip(e[1] if e[0] == "ref" else e) == ("param", 1) for e in a1)
            out.append((bb, t)); info[bb] = {"form": "contains", "needle_is_signal": needle}
        elif name in ("any", "all", "find", "position"):
            # closure comparing the element with the captured signal
            needle = False
            for e in [deep_strip(x) for x in fl.term_arg(bb, 1)]:
                if e[0] == "agg" and e[1][0] == "closure":
                    ups = [deep_strip(u) for u in e[2]]
                    cap = any(strip(u[1] if u[0] == "ref" else u) == ("param", 1) for u in ups)
                    cl = [c for c in F.inst if c.kind == "closure" and c.defp == e[1][1] and c.body is not None]
                    eq = any(st["k"] == "assign" and st["r"]["k"] == "binop" and st["r"]["op"] in ("Eq", "Ne") for c in cl[:1] for bl in c.blocks for st in bl["s"])
                    needle = cap and eq
            # `any` answers "is forbidden"; the polarity is taken from the branch facts below
            out.append((bb, t)); info[bb] = {"form": "iter()." + name, "needle_is_signal": needle}
    return out, info


def rule_b(ctx):
    F = ctx.F
    rid = "C14.b"
    ctx.rule(rid, "the assertion tests membership of the `signal` parameter in FORBIDDEN, the registering call is control-dependent on 'not "
                  "contained' and is the first effect; on the panic path the would-be action is dropped", floor=4)
    checker, target = checker_and_target(F)
    cs = [i for i in F.inst if i.local and i.body is not None and i.defp == checker]
    if checker == target:
        return _merged_checker(ctx, F, rid, cs)
    for m in cs:
        ctx.fn(m)
        fl = flow(m)
        tcalls = [(bb, t) for bb, t in m.calls() if t.get("f") is not None and F.inst[t["f"]].defp == target]
        cont, how = membership_tests(F, m)
        if len(cont) != 1 or not tcalls:
            raise AnchorLost("checker shape: membership test on FORBIDDEN / registering call")
        cbb, ct = cont[0]
        ctx.check(how[cbb]["needle_is_signal"], rid, "tests-signal-in-FORBIDDEN", "the check tests the function's own signal parameter for membership in FORBIDDEN (%s)" % how[cbb]["form"],
                  ct["sp"], how[cbb])
        for tbb, tt in tcalls:
            facts = facts_at(m, tbb)
            dep = any(c[0] == "call" and c[1] == cbb and truth(inf) is False for (c, inf, b) in facts)
            ctx.check(dep, rid, "register-only-if-not-forbidden", "the registering call is reached only when contains() returned false", tt["sp"], [(show(c), i) for c, i, _ in facts])
            sig = [deep_strip(e) for e in fl.term_arg(tbb, 0)]
            ctx.check(sig == [("param", 1)], rid, "same-signal", "the checked number is the one registered", tt["sp"], [show(e) for e in sig])
        # first effect: no other workspace / FFI call can run before the check's outcome is known
        dom = cfg.dominators(m)
        early = []
        for bb, t in m.calls():
            if t.get("f") is None:
                continue
            c = F.inst[t["f"]]
            if (c.local or c.kind == "foreign") and bb != cbb and not (cbb in dom[bb]):
                early.append(c.name)
        ctx.check(not early, rid, "check-first", "no workspace or FFI call precedes the check", m.span, early)
        # panic path drops the action
        panics = [bb for bb, t in m.calls() if t.get("ret") is None and (t.get("def") or "").startswith("core::panicking")]
        okd = True
        for pb in panics:
            r = cfg.reachable_after(m, pb, labels=["unw"])
            drops = [b for b in r if m.term(b)["k"] == "drop" and not m.term(b)["p"]["p"] and m.term(b)["p"]["l"] == 2]
            if m.term(pb).get("needs") is None and not drops and m.local_ty(2) and "closure" in m.local_ty(2):
                # closures without drop glue have no Drop terminator; needs_drop tells
                okd = okd and not _needs_drop(F, m, 2)
        ctx.check(panics and okd, rid, "panic-drops-action", "unwinding out of the refusal drops the would-be action (its captures are released)", m.span,
                  "the action is leaked on the panic path")


def _merged_checker(ctx, F, rid, cs):
    """the assertion lives inside the registering function itself (possibly behind a `check` flag parameter): every effect must be
    reachable only through the membership test's not-forbidden outcome or through an explicit flag-off edge"""
    ins = [i.id for i in installers(F)]
    for m in cs:
        ctx.fn(m)
        fl = flow(m)
        mt, how = membership_tests(F, m)
        cont = [bb for bb, _ in mt]
        if not cont:
            raise AnchorLost("membership test on FORBIDDEN")
        for cbb in cont:
            ctx.check(how[cbb]["needle_is_signal"], rid, "tests-signal-in-FORBIDDEN", "the check tests the function's own signal parameter for membership in FORBIDDEN",
                      m.term(cbb)["sp"], how[cbb])
        from .pub import publish_sites
        pubs = {bb for bb, t, gi, vi in publish_sites(F, m, DATA_T)}
        effects = [(bb, t) for bb, t in m.calls() if t.get("f") is not None and (bb in pubs or t["f"] in ins)]
        if not effects:
            raise AnchorLost("effects (publish / install) in the registering function")
        # flag-off edges: switch on a bool parameter whose other edge leads to the membership test
        off_edges = set(); flags = set()
        for b in range(m.nblocks()):
            t = m.term(b)
            if t["k"] != "switch":
                continue
            ex = [deep_strip(e) for e in fl.term_operand(b, t["d"])]
            if len(ex) == 1 and ex[0][0] == "param" and m.local_ty(ex[0][1]) == "bool":
                for tg, lab in m.succ_labeled(b):
                    leads = any(c == tg or c in cfg.reachable(m, tg, unwind=False) for c in cont)
                    if not leads and lab == "sw:0":
                        off_edges.add((b, tg, lab)); flags.add(ex[0][1])
        # reachability from entry avoiding the membership test and the flag-off edges
        seen = set(); st = [0]
        while st:
            x = st.pop()
            if x in seen or x in cont:
                continue
            seen.add(x)
            for tg, lab in m.succ_labeled(x):
                if lab == "unw" or (x, tg, lab) in off_edges:
                    continue
                st.append(tg)
        for bb, t in effects:
            ctx.check(bb not in seen, rid, "effect-behind-check:%s@%s" % ((t.get("def") or "").split("::")[-1], keyname(m.name)),
                      "the %s is reachable only through the forbidden-signal test (or an explicit check-off edge)" % (t.get("def") or "").split("::")[-1], t["sp"],
                      {"path_without_check": cfg.path(m, 0, bb, avoid=set(cont), unwind=False),
                       "why": "e.g. an already existing slot: a forbidden signal taken over once through the unchecked API is then accepted by every checked entry point"})
        # who may switch the check off
        for (cid, k, cb) in F.callers().get(m.id, []):
            c = F.inst[cid]
            if c.body is None or k != "call":
                continue
            for fp in flags:
                v = [fold(e) for e in flow(c).term_arg(cb, fp - 1)]
                name = c.defp.split("::")[-1]
                if v == [1]:
                    ctx.ok(rid, "flag-on@%s" % keyname(c.name), "%s asks for the check" % name, c.term(cb)["sp"])
                else:
                    ctx.check(v == [0] and "unchecked" in name, rid, "flag-off@%s" % keyname(c.name), "only a documented *_unchecked entry point switches the check off", c.term(cb)["sp"], v)


def _needs_drop(F, m, local):
    ty = m.local_ty(local)
    for bb, t in m.drops():
        if not t["p"]["p"] and t["p"]["l"] == local:
            return t.get("needs_drop", True)
    # no drop terminator at all for this local: rustc elides it only when the type has no drop glue
    return False


def rule_c(ctx):
    F = ctx.F
    rid = "C14.c"
    ctx.rule(rid, "FORBIDDEN contains the five signals the property names (KILL, STOP, ILL, FPE, SEGV)", floor=5)
    nums = {r[0]: int(r[1]) for r in _tsv("linux_signal_numbers.tsv")}
    want = [r[0] for r in _tsv("forbidden_signals.tsv")]
    c = F.const("signal_hook_registry::FORBIDDEN")
    have = c["val"] or []
    for w in want:
        ctx.check(nums[w] in have, rid, "forbidden:%s" % w, "%s (%d) is in FORBIDDEN" % (w, nums[w]), None, {"FORBIDDEN": have})


def rule_d(ctx):
    F = ctx.F
    rid = "C14.d"
    ctx.rule(rid, "errors from the OS propagate before the snapshot is published: on the Err outcome of the disposition query / the installing "
                  "call the publish is unreachable and the action is dropped", floor=2)
    ins = [i.id for i in installers(F)]
    for r in _register_impls(F):
        ctx.fn(r)
        from .pub import publish_sites
        stores = [bb for bb, t, gi, vi in publish_sites(F, r, DATA_T)]
        fall = [bb for bb, t in r.calls() if t.get("f") is not None and (F.inst[t["f"]].defp.endswith("Prev::detect") or t["f"] in ins)]
        if not stores or len(fall) < 2:
            raise AnchorLost("registration: fallible calls %d / publish %d" % (len(fall), len(stores)))
        for fb in fall:
            for sb in stores:
                g, why = result_gates(F, r, fb, sb)
                ctx.check(g, rid, "err-before-publish:%s@%s" % ((r.term(fb).get("def") or "").split("::")[-1], keyname(r.name)),
                          "the snapshot is published only when %s succeeded" % (r.term(fb).get("def") or "").split("::")[-1], r.term(fb)["sp"], why)


def rule_e(ctx):
    poison_rules(ctx, "C14.e", floor=3)


def rule_f(ctx):
    F = ctx.F
    rid = "C14.f"
    ctx.rule(rid, "iterator front-ends: the range assertions on the signal number (0 <= signal < table size) hold before the slot is initialised "
                  "and before the registration call", floor=3)
    ms = [i for i in F.inst if i.local and i.body is not None and re.match(r"^<signal_hook::iterator::backend::PendingSignals<.*> as signal_hook::iterator::backend::AddSignal>::add_signal$", i.name)]
    if len(ms) < 3:
        raise AnchorLost("PendingSignals::add_signal instances")
    mx = F.const("signal_hook::iterator::backend::MAX_SIGNUM")["val"]
    for m in ms:
        ctx.fn(m)
        eff = [(bb, t) for bb, t in m.calls() if t.get("f") is not None and
               (F.inst[t["f"]].defp.endswith("Exfiltrator::init") or F.inst[t["f"]].defp.startswith("signal_hook_registry::register") or
                re.search(r"Exfiltrator>::init$", F.inst[t["f"]].name))]
        if not eff:
            raise AnchorLost("add_signal no longer initialises/registers")
        for bb, t in eff:
            lower = upper = False
            for (ce, inf, b) in facts_at(m, bb):
                if ce[0] != "binop":
                    continue
                a, bq = deep_strip(ce[2]), deep_strip(ce[3])
                while a[0] == "cast":
                    a = deep_strip(a[1])
                if a != ("param", 3):
                    continue
                tv = truth(inf); bv = fold(bq)
                if ce[1] == "Ge" and bv == 0 and tv: lower = True
                if ce[1] == "Lt" and bv == 0 and tv is False: lower = True
                if ce[1] == "Lt" and bv is not None and bv <= mx and tv: upper = True
            ctx.check(lower and upper, rid, "range-checked-before:%s@%s" % ((t.get("def") or "").split("::")[-1], re.sub(r".*PendingSignals<[\w:]*::(\w+)>.*", r"\1", m.name)),
                      "0 <= signal < %d is established before %s" % (mx, (t.get("def") or "").split("::")[-1]), t["sp"], {"lower": lower, "upper": upper})


def rule_g(ctx):
    """rejected inputs leak nothing: the self-pipe front-end owns the descriptor before anything can refuse by panic (shared with C13.f)"""
    from .C13 import rule_f
    from .C18 import _Alias
    ctx.rule("C14.g", "the descriptor passed to pipe::register_raw is wrapped in its closing owner before any explicit panic site, so the refusal of a "
                      "forbidden signal releases it (shared with C13.f)", floor=1)
    rule_f(_Alias(ctx, "C14.g"))


def run(ctx):
    ctx.guarded("C14.g", rule_g)
    ctx.guarded("C14.a", rule_a)
    ctx.guarded("C14.b", rule_b)
    ctx.guarded("C14.c", rule_c)
    ctx.guarded("C14.d", rule_d)
    ctx.guarded("C14.e", rule_e)
    ctx.guarded("C14.f", rule_f)
    ctx.note("not decided: what the OS accepts (EINVAL for which numbers); 'dispositions exactly as before' as an observable equality")
    ctx.assume("the two documented unchecked entry points are recognised by their public names (`*_unchecked`), which are API")
