"""C14 — forbidden and invalid signals are refused before anything changes."""
import re
from .. import cfg
from ..anchors import handler, is_user_code
from ..conds import facts_at, truth
from ..effects import _tsv
from ..facts import keyname, AnchorLost
from ..flow import flow, deps, deep_strip, strip, show, mentions, fold
from .util import call_sites, result_gates
from .lockrules import poison_rules
from .C02 import registering, DATA_T
from . import reg


def def_graph(F):
    """def-level call graph over all workspace crates (CHA for trait methods, closures as callees of their parent)"""
    fns = {}
    for c, f in F.crate_items("fns"):
        fns[f["path"]] = f
    impls_of = {}     # trait method path -> [impl fn paths]
    for p, f in fns.items():
        if f.get("trait_impl"):
            meth = p.split("::")[-1]
            impls_of.setdefault(f["trait_impl"] + "::" + meth, []).append(p)
    edges = {}
    for p, f in fns.items():
        out = set()
        for c in f["callees"]:
            d = c["def"]
            if d in fns:
                out.add(d)
            if c.get("trait_method") and d in impls_of:
                out.update(impls_of[d])
            # generic-stripped match (`Type::<T>::f` vs `Type::<'a, T>::f`)
        for c in f["closures"] + f["fn_values"]:
            if c in fns:
                out.add(c)
        edges[p] = out
    return fns, edges


def reach_def(edges, start, removed=()):
    seen = set(); st = [start]
    while st:
        x = st.pop()
        if x in seen or x in removed:
            continue
        seen.add(x)
        st.extend(edges.get(x, ()))
    return seen


def registry_effects(F, n):
    """effects of a registration in a normal form: installing sigaction calls, publishes of the data snapshot, fallback stores"""
    from .C04 import install_calls
    L = reg.locks(F)
    inst, queries = install_calls(F, n)
    return inst, queries, reg.calls_to(n, L.stores(DATA_T)), reg.calls_to(n, L.stores(reg.FB_T))


def rule_a(ctx):
    F = ctx.F
    rid = "C14.a"
    ctx.rule(rid, "who may bypass the check: every public registering function of the registry either tests FORBIDDEN before any effect (C14.b) or is a "
                  "documented `*_unchecked` entry point, and no function outside the registry crate reaches an unchecked entry point", floor=20)
    fns, edges = def_graph(F)
    regs = registering(F)
    reg_defs = {fn["path"] for fn, _, _ in regs}
    unchecked = {p for p in reg_defs if "unchecked" in p.split("::")[-1]}
    checked = reg_defs - unchecked
    if not checked or not unchecked:
        raise AnchorLost("registry entry points: checked %s unchecked %s" % (sorted(checked), sorted(unchecked)))
    for p in sorted(reg_defs):
        if p in unchecked:
            ctx.ok(rid, "entry:%s" % p, "documented unchecked entry point (bypasses the check by contract)", fns[p]["span"] if p in fns else None)
    n = 0
    for p, f in sorted(fns.items()):
        if not f["pub"] or f["kind"] == "Closure" or p in reg_defs:
            continue
        full = reach_def(edges, p)
        if not (full & reg_defs):
            continue
        n += 1
        hit = sorted(full & unchecked)
        ctx.check(not hit, rid, "entry:%s" % p, "public entry point %s registers only through the checked registry functions" % p, f["span"],
                  {"reaches_unchecked": hit, "path": _path(edges, p, hit[0], set()) if hit else None})
    if n < 10:
        raise AnchorLost("only %d public functions reach a registering function (expected >= 10 incl. flags, pipe, iterators, adapters)" % n)


def _path(edges, src, dst, removed):
    from collections import deque
    prev = {src: None}; q = deque([src])
    while q:
        x = q.popleft()
        if x == dst:
            out = []
            while x is not None:
                out.append(x); x = prev[x]
            return out[::-1]
        for y in edges.get(x, ()):
            if y not in prev and y not in removed:
                prev[y] = x; q.append(y)
    return None


def membership_tests(F, m):
    """calls in m that decide `signal in FORBIDDEN`: `FORBIDDEN.contains(&signal)` or `FORBIDDEN.iter().any(|s| *s == signal)` (and
    the like). Returns ([(bb, term)], {bb: info})"""
    fl = flow(m)
    out = []; info = {}
    for bb, t in m.calls():
        d = t.get("def") or ""
        if not (m.local_ty(t["dest"]["l"]) == "bool" if t.get("dest") and not t["dest"]["p"] else False):
            continue
        dd = deps(m, [e for ai in range(len(t["args"])) for e in fl.term_arg(bb, ai)])
        uses_forbidden = any(x[0] == "const" and (x[2] or "").startswith("signal_hook_registry::FORBIDDEN") for x in dd)
        if not uses_forbidden:
            continue
        name = d.split("::")[-1]
        if name == "contains":
            a1 = [deep_strip(e) for e in fl.term_arg(bb, 1)]
            needle = all(strip(e[1] if e[0] == "ref" else e) == ("param", 1) for e in a1)
            out.append((bb, t)); info[bb] = {"form": "contains", "needle_is_signal": needle}
        elif name in ("any", "all", "find", "position"):
            # closure comparing the element with the captured signal
            needle = False
            for e in [deep_strip(x) for x in fl.term_arg(bb, 1)]:
                if e[0] == "agg" and e[1][0] == "closure":
                    ups = [deep_strip(u) for u in e[2]]
                    cap = any(strip(u[1] if u[0] == "ref" else u) == ("param", 1) for u in ups)
                    cl = [c for c in F.inst if c.kind == "closure" and c.defp == e[1][1] and c.body is not None]
                    eq = any(st["k"] == "assign" and st["r"]["k"] == "binop" and st["r"]["op"] in ("Eq", "Ne") for c in cl[:1] for bl in c.blocks for st in bl["s"])
                    needle = cap and eq
            # `any` answers "is forbidden"; the polarity is taken from the branch facts below
            out.append((bb, t)); info[bb] = {"form": "iter()." + name, "needle_is_signal": needle}
    return out, info


def rule_b(ctx):
    F = ctx.F
    rid = "C14.b"
    ctx.rule(rid, "in every checked public registering function (helpers inlined) the `signal` parameter is tested for membership in FORBIDDEN, every "
                  "effect (install, publish, fallback store) is reachable only through the not-forbidden outcome, the number installed is the number "
                  "tested, and on the panic path the would-be action is dropped", floor=4)
    for fn, m0, m in registering(F):
        name = fn["path"].split("::")[-1]
        if "unchecked" in name:
            continue
        ctx.fn(m0)
        mt, how = membership_tests(F, m)
        if not mt:
            # the test may be written with an iterator combinator (`FORBIDDEN.iter().any(|s| *s == signal)`): look at the form in which
            # std combinators stay calls
            m = reg.RN(F, m0, hof=False)
            mt, how = membership_tests(F, m)
        if not mt:
            raise AnchorLost("%s: membership test on FORBIDDEN" % name)
        fl = flow(m)
        cont = [bb for bb, _ in mt]
        for cbb in cont:
            ctx.check(how[cbb]["needle_is_signal"], rid, "tests-signal-in-FORBIDDEN@%s" % name, "the check tests the function's own signal parameter for membership in FORBIDDEN (%s)" % how[cbb]["form"],
                      m.term(cbb)["sp"], how[cbb])
        inst, queries, pubs, fbs = registry_effects(F, m)
        effects = inst + queries + pubs + fbs
        if not inst or not pubs:
            raise AnchorLost("%s: effects (install / publish)" % name)
        seen = cfg.reachable(m, 0, avoid=set(cont), unwind=False)
        for bb, t in effects:
            what = (t.get("def") or "").split("::")[-1]
            facts = facts_at(m, bb)
            dep = any(c[0] == "call" and c[1] in cont and truth(inf) is False for (c, inf, b) in facts)
            ctx.check(bb not in seen and dep, rid, "effect-behind-check:%s@%s" % (what, name),
                      "the %s is reached only when the membership test answered 'not forbidden'" % what, t["sp"],
                      {"path_without_check": cfg.path(m, 0, bb, avoid=set(cont), unwind=False), "facts": [(show(c), i) for c, i, _ in facts][:8]})
        for bb, t in inst:
            sig = [deep_strip(e) for e in fl.term_arg(bb, 0)]
            ctx.check(sig == [("param", 1)], rid, "same-signal@%s" % name, "the checked number is the one installed", t["sp"], [show(e) for e in sig])
        # panic path drops the action
        panics = [bb for bb, t in m.calls() if t.get("ret") is None and (t.get("def") or "").startswith("core::panicking") and
                  any(c in cfg.dominators(m)[bb] for c in cont)]
        okd = bool(panics)
        # locals that carry the action: the parameter, and whatever it is moved into (argument bindings of inlined helpers, the wrapping closure)
        carriers = {2}; grow = True
        while grow:
            grow = False
            for bl in m.blocks:
                for st in bl["s"]:
                    if st["k"] != "assign" or st["l"]["p"] or st["l"]["l"] in carriers:
                        continue
                    r_ = st["r"]
                    ops = [r_["o"]] if r_["k"] == "use" else (r_["ops"] if r_["k"] == "aggregate" else [])
                    if any(o.get("k") == "move" and not o["p"]["p"] and o["p"]["l"] in carriers for o in ops):
                        carriers.add(st["l"]["l"]); grow = True
        for pb in panics:
            r = cfg.reachable_after(m, pb, labels=["unw"])
            drops = [b for b in r if m.term(b)["k"] == "drop" and not m.term(b)["p"]["p"] and m.term(b)["p"]["l"] in carriers]
            if not drops and _needs_drop(F, m0, m, 2):
                okd = False
        ctx.check(okd, rid, "panic-drops-action@%s" % name, "unwinding out of the refusal drops the would-be action (its captures are released)", m0.span,
                  "the action is leaked on the panic path")


def _needs_drop(F, m0, m, local):
    """does the type of `local` have drop glue? (rustc emits no Drop terminator at all for types without)"""
    for bb, t in m.drops():
        if not t["p"]["p"] and t["p"]["l"] == local:
            return t.get("needs_drop", True)
    ty = m.local_ty(local)
    return any(i.kind == "drop_glue" and i.drop_ty == ty and i.body is not None and i.nblocks() > 1 for i in F.inst)


def rule_c(ctx):
    F = ctx.F
    rid = "C14.c"
    ctx.rule(rid, "FORBIDDEN contains the five signals the property names (KILL, STOP, ILL, FPE, SEGV)", floor=5)
    nums = {r[0]: int(r[1]) for r in _tsv("linux_signal_numbers.tsv")}
    want = [r[0] for r in _tsv("forbidden_signals.tsv")]
    c = F.const("signal_hook_registry::FORBIDDEN")
    have = c["val"] or []
    for w in want:
        ctx.check(nums[w] in have, rid, "forbidden:%s" % w, "%s (%d) is in FORBIDDEN" % (w, nums[w]), None, {"FORBIDDEN": have})


def result_tests(m, call_bb):
    """switch edges deciding on the integer result of the call at call_bb: (test blocks, failure edges {(src, dst)})"""
    from ..conds import switch_edges
    tests = set(); fail = set()
    for (b, tgt, lab, exprs, t) in switch_edges(m):
        for e in exprs:
            e = deep_strip(e)
            cmpop = None
            if e[0] == "call" and e[1] == call_bb:
                x = e
            elif e[0] == "binop" and e[1] in ("Eq", "Ne") and ((deep_strip(e[2])[0] == "call" and deep_strip(e[2])[1] == call_bb and fold(e[3]) == 0) or
                                                              (deep_strip(e[3])[0] == "call" and deep_strip(e[3])[1] == call_bb and fold(e[2]) == 0)):
                cmpop = e[1]
            else:
                continue
            tests.add(b)
            val = int(lab[3:]) if lab.startswith("sw:") else None
            if cmpop is None:
                failure = (val is not None and val != 0) or (val is None and 0 in [v for v, _ in t["vals"]])
            else:
                is_true = (val is not None and val != 0) or (val is None and [v for v, _ in t["vals"]] == [0])
                failure = (cmpop == "Ne" and is_true) or (cmpop == "Eq" and not is_true)
            if failure:
                fail.add((b, tgt))
    return tests, fail


def rule_d(ctx):
    F = ctx.F
    rid = "C14.d"
    ctx.rule(rid, "errors from the OS propagate before the snapshot is published: from the failure outcome of the disposition query / the installing "
                  "sigaction call no publish is reachable (helpers and `?` inlined, paths resolved)", floor=2)
    for fn, r0, r in registering(F):
        ctx.fn(r0)
        name = fn["path"].split("::")[-1]
        inst, queries, pubs, fbs = registry_effects(F, r)
        if not pubs or not inst or not queries:
            raise AnchorLost("registration: sigaction calls %d+%d / publish %d" % (len(inst), len(queries), len(pubs)))
        for kind, calls in (("query", queries), ("install", inst)):
            for sb, st in calls:
                tests, fail = result_tests(r, sb)
                after = cfg.reachable_after(r, sb, unwind=False)
                for pb, pt in pubs:
                    if pb not in after:
                        continue
                    gated, _ = cfg.every_path_passes(r, sb, [pb], tests, unwind=False)
                    leak = [d for (s_, d) in fail if pb == d or pb in cfg.reachable(r, d, unwind=False)]
                    ctx.check(bool(tests) and gated and not leak, rid, "err-before-publish:%s@%s" % (kind, name),
                              "the snapshot is published only when the %s sigaction call succeeded" % kind, st["sp"],
                              {"result_tested": bool(tests), "every_path_tests_it": gated, "publish_reachable_from_failure_edge": bool(leak)})


def rule_e(ctx):
    poison_rules(ctx, "C14.e", floor=3)


def rule_f(ctx):
    F = ctx.F
    rid = "C14.f"
    ctx.rule(rid, "iterator front-ends: the range assertions on the signal number (0 <= signal < table size) hold before the slot is initialised "
                  "and before the registration call", floor=3)
    ms = [i for i in F.inst if i.local and i.body is not None and re.match(r"^<signal_hook::iterator::backend::PendingSignals<.*> as signal_hook::iterator::backend::AddSignal>::add_signal$", i.name)]
    if len(ms) < 3:
        raise AnchorLost("PendingSignals::add_signal instances")
    mx = F.const("signal_hook::iterator::backend::MAX_SIGNUM")["val"]
    from .nf import NF
    for m0 in ms:
        ctx.fn(m0)
        m = NF(F, m0)
        eff = [(bb, t) for bb, t in m.calls() if t.get("f") is not None and
               (F.inst[t["f"]].defp.endswith("Exfiltrator::init") or F.inst[t["f"]].defp.startswith("signal_hook_registry::register") or
                re.search(r"Exfiltrator>::init$", F.inst[t["f"]].name))]
        if not eff:
            raise AnchorLost("add_signal no longer initialises/registers")
        for bb, t in eff:
            lower = upper = False
            for (ce, inf, b) in facts_at(m, bb):
                if ce[0] != "binop":
                    continue
                a, bq = deep_strip(ce[2]), deep_strip(ce[3])
                while a[0] == "cast":
                    a = deep_strip(a[1])
                if a != ("param", 3):
                    continue
                tv = truth(inf); bv = fold(bq)
                if ce[1] == "Ge" and bv == 0 and tv: lower = True
                if ce[1] == "Lt" and bv == 0 and tv is False: lower = True
                if ce[1] == "Lt" and bv is not None and bv <= mx and tv: upper = True
            ctx.check(lower and upper, rid, "range-checked-before:%s@%s" % ((t.get("def") or "").split("::")[-1], re.sub(r".*PendingSignals<[\w:]*::(\w+)>.*", r"\1", m.name)),
                      "0 <= signal < %d is established before %s" % (mx, (t.get("def") or "").split("::")[-1]), t["sp"], {"lower": lower, "upper": upper})


def rule_g(ctx):
    """rejected inputs leak nothing: the self-pipe front-end owns the descriptor before anything can refuse by panic (shared with C13.f)"""
    from .C13 import rule_f
    from .C18 import _Alias
    ctx.rule("C14.g", "the descriptor passed to pipe::register_raw is wrapped in its closing owner before any explicit panic site, so the refusal of a "
                      "forbidden signal releases it (shared with C13.f)", floor=1)
    rule_f(_Alias(ctx, "C14.g"))


def rule_h(ctx):
    """a refusal by panic leaves nothing behind for good: shared with C12.a3"""
    from .lockrules import cleanup_on_every_path
    cleanup_on_every_path(ctx, "C14.h")


def rule_i(ctx):
    """iterator constructors report a refusal: in `SignalDelivery::with_pipe` (helpers inlined) the result of every `Handle::add_signal` call is
    examined and, assuming it is never Ok, no `Ok(instance)` remains reachable after the call — an `Err` from registering one of the initial
    signals cannot be swallowed (`let _ = ..`) into a successfully constructed instance that silently does not watch that signal"""
    F = ctx.F
    rid = "C14.i"
    ctx.rule(rid, "the iterator constructor propagates a refused initial signal: no Ok(instance) is reachable from the Err outcome of Handle::add_signal", floor=1)
    from .nf import NF
    from .. import inline
    from ..conds import switch_edges
    n_calls = 0
    for m0 in F.some("signal_hook::iterator::backend::SignalDelivery::<R, E>::with_pipe", what="SignalDelivery::with_pipe"):
        n = NF(F, m0)
        adds = [(bb, t) for bb, t in n.calls() if (t.get("def") or "").endswith("backend::Handle::add_signal") and not n.blocks[bb].get("dead")]
        if not adds:
            continue
        ctx.fn(m0)
        for bb, t in adds:
            n_calls += 1
            cut = set(); examined = False
            for (b2, tgt, lab, exprs, t2) in switch_edges(n):
                ex = [deep_strip(e) for e in exprs]
                if ex and all(e[0] == "discr" and mentions(e, lambda x: x[0] == "call" and x[1] == bb) for e in ex):
                    examined = True
                    if lab == "sw:0" or (not lab.startswith("sw:") and 0 not in [v for v, _ in t2["vals"]]):
                        cut.add((b2, tgt))
            key = "constructor-propagates-refusal@%s" % keyname(m0.name)
            if not examined:
                ctx.bad(rid, key, "the result of Handle::add_signal is not examined in the constructor (a refused initial signal is swallowed)", t["sp"])
                continue
            n2 = inline.assuming(F, n, cut)
            after = cfg.reachable(n2, bb, unwind=False) if not n2.blocks[bb].get("dead") else set()
            oks = [b for b in after if any(st["k"] == "assign" and st["r"]["k"] == "aggregate" and st["r"].get("def") == "core::result::Result" and st["r"].get("variant") == "Ok"
                                           and "SignalDelivery" in n2.local_ty(st["l"]["l"]) for st in n2.stmts(b))]
            ctx.check(not oks, rid, key, "a refused initial signal makes the constructor fail", t["sp"],
                      {"ok_still_reachable_at": [n2.term(b)["sp"].split("/")[-1] for b in oks][:3]})
    if n_calls == 0:
        raise AnchorLost("SignalDelivery::with_pipe no longer calls Handle::add_signal")


def run(ctx):
    ctx.guarded("C14.i", rule_i)
    ctx.guarded("C14.g", rule_g)
    ctx.guarded("C14.h", rule_h)
    ctx.guarded("C14.a", rule_a)
    ctx.guarded("C14.b", rule_b)
    ctx.guarded("C14.c", rule_c)
    ctx.guarded("C14.d", rule_d)
    ctx.guarded("C14.e", rule_e)
    ctx.guarded("C14.f", rule_f)
    ctx.note("not decided: what the OS accepts (EINVAL for which numbers); 'dispositions exactly as before' as an observable equality")
    ctx.assume("the two documented unchecked entry points are recognised by their public names (`*_unchecked`), which are API")
