"""helpers shared by rule files"""
import re
from .. import cfg
from ..flow import flow, strip, deep_strip, fold, show, mentions, field_path
from ..effects import norm
from ..facts import strip_generics, keyname, AnchorLost


def call_sites(F, m, pred):
    """[(bb, term, callee_inst)] of direct calls in m whose callee satisfies pred(callee_inst)"""
    out = []
    if m.body is None:
        return out
    for bb, t in m.calls():
        if t.get("f") is None:
            continue
        ci = F.inst[t["f"]]
        if pred(ci):
            out.append((bb, t, ci))
    return out


def foreign(sym):
    return lambda ci: ci.kind == "foreign" and ci.symbol == sym


def defp_is(*paths):
    ps = set(norm(p) for p in paths)
    return lambda ci: norm(ci.defp) in ps


def name_re(rx):
    r = re.compile(rx)
    return lambda ci: bool(r.search(ci.name))


def exactly_once(m, blocks, unwind=False):
    """every entry->return path passes through exactly one block of `blocks` (and none sits in a cycle).
    returns (ok, why)"""
    blocks = set(blocks)
    if not blocks:
        return False, "no such call"
    for c in cfg.cycles(m, unwind):
        if c & blocks:
            return False, "call inside a loop (blocks %s)" % sorted(c & blocks)
    exits = set(m.exits())
    r = cfg.reachable(m, 0, avoid=blocks, unwind=unwind)
    if r & exits and 0 not in blocks:
        p = cfg.path(m, 0, sorted(r & exits)[0], avoid=blocks, unwind=unwind)
        return False, "a path to return avoids the call: blocks %s" % p
    for b in blocks:
        after = cfg.reachable_after(m, b, unwind=unwind)
        if after & blocks:
            return False, "a second call is reachable after the first (bb%d -> bb%s)" % (b, sorted(after & blocks))
    return True, "exactly one on every path"


def at_most_once(m, blocks, unwind=False):
    blocks = set(blocks)
    for c in cfg.cycles(m, unwind):
        if c & blocks:
            return False, "call inside a loop"
    for b in blocks:
        after = cfg.reachable_after(m, b, unwind=unwind)
        if after & blocks:
            return False, "a second call is reachable after the first"
    return True, "at most one on every path"


def or_terms(e):
    """flatten a BitOr chain"""
    e = strip(e)
    if e[0] == "binop" and e[1] == "BitOr":
        return or_terms(e[2]) + or_terms(e[3])
    if e[0] == "cast":
        return or_terms(e[1])
    return [e]


def result_gates(F, m, call_bb, target_bb):
    """Is `target_bb` reachable only on the success outcome (discriminant 0: Ok / Continue) of the call at call_bb?
    Finds switches on discr(result) — directly or through `Try::branch(result)` — and requires that the target is
    unreachable from every non-zero edge. returns (ok, why)"""
    fl = flow(m)
    found = False
    for b, bl in enumerate(m.blocks):
        t = bl["t"]
        if t["k"] != "switch":
            continue
        for e in fl.term_operand(b, t["d"]):
            e = deep_strip(e)
            if e[0] == "call" and (e[3] or "").endswith(("Result::<T, E>::is_ok", "Result::<T, E>::is_err")):
                # `if call().is_ok() { target }`: the bool answers for the call's result
                if not any(mentions(a, lambda x: x[0] == "call" and x[1] == call_bb) for a in fl.term_arg(e[1], 0)):
                    continue
                found = True
                want_true = e[3].endswith("is_ok")
                for tg, lab in m.succ_labeled(b):
                    is_true_edge = (lab.startswith("sw:") and lab != "sw:0") or (lab == "else" and [v for v, _ in t["vals"]] == [0])
                    if is_true_edge == want_true:
                        continue
                    if target_bb == tg or target_bb in cfg.reachable(m, tg, unwind=False):
                        return False, "target bb%d reachable from the failure edge bb%d->bb%d" % (target_bb, b, tg)
                continue
            if e[0] != "discr":
                continue
            x = deep_strip(e[1])
            src = None
            if x[0] == "call" and x[1] == call_bb:
                src = x
            elif x[0] == "call" and x[3] and norm(x[3]).endswith("::Try::branch"):
                for a in fl.term_arg(x[1], 0):
                    a = deep_strip(a)
                    if a[0] == "call" and a[1] == call_bb:
                        src = a
            if src is None:
                continue
            found = True
            zero_tgt = [tg for v, tg in t["vals"] if v == 0]
            for tg, lab in m.succ_labeled(b):
                if lab == "sw:0":
                    continue
                if target_bb == tg or target_bb in cfg.reachable(m, tg, unwind=False):
                    # reachable from a failure edge — unless that edge re-joins before... (no loops here)
                    return False, "target bb%d reachable from the failure edge bb%d->bb%d" % (target_bb, b, tg)
            if not zero_tgt:
                return False, "no success edge"
    if not found:
        return False, "result of the call is never examined"
    return True, "reachable only on the success outcome"


def closure_constructions(m, defp=None):
    """[(bb, stmt_idx, rvalue)] closure aggregates in m"""
    out = []
    for bb, bl in enumerate(m.blocks):
        for si, s in enumerate(bl["s"]):
            if s["k"] == "assign" and s["r"]["k"] == "aggregate" and s["r"].get("ak") == "closure":
                if defp is None or s["r"]["def"] == defp:
                    out.append((bb, si, s["r"]))
    return out


def adt_constructions(m, defp):
    out = []
    for bb, bl in enumerate(m.blocks):
        for si, s in enumerate(bl["s"]):
            if s["k"] == "assign" and s["r"]["k"] == "aggregate" and s["r"].get("ak") == "adt" and s["r"]["def"] == defp:
                out.append((bb, si, s["r"]))
    return out


def type_instances(F, type_sub, fn_res):
    """instances whose name matches one of fn_res and mentions type_sub (zero-count rules keyed on the type argument)"""
    out = []
    for i in F.inst:
        if type_sub not in i.name:
            continue
        for rx in fn_res:
            if re.search(rx, i.name):
                out.append(i)
                break
    return out


ESCAPE_FNS = [r"^core::mem::forget::<", r"^core::mem::manually_drop::ManuallyDrop::<.*>::new$", r"^core::ptr::read::<",
              r"^core::ptr::read_volatile::<", r"^core::ptr::read_unaligned::<", r"^core::mem::transmute_copy::<",
              r"^core::mem::maybe_uninit::MaybeUninit::<.*>::assume_init_read$", r"^core::ptr::write::<"]


def escapes(F, type_pred, clone_pred=None):
    """instances of forget/ManuallyDrop::new/ptr::read/... whose *type argument* satisfies type_pred, plus Clone::clone
    instances (impl or shim) on such a type"""
    out = []
    for i in F.inst:
        n = i.name
        for rx in ESCAPE_FNS:
            if re.search(rx, n) and i.args and any(type_pred(a) for a in i.args):
                out.append(i); break
        else:
            m = re.match(r"^<(.*) as core::clone::Clone>::clone( - shim.*)?$", n)
            if m and (clone_pred or type_pred)(m.group(1)):
                out.append(i)
    return out
