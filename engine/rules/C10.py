"""C10 — signal iterators report only real, registered, not-yet-reported deliveries (structural part)."""
import re
from .. import cfg, inline
from ..anchors import handler
from ..atomics import sites
from ..conds import facts_at, truth
from ..facts import keyname, AnchorLost
from ..flow import flow, deps, deep_strip, strip, show, mentions, fold
from .util import call_sites, closure_constructions
from .iterc import insts, action_closures, pending_next, exf_of, slot_index_exprs
from .C09 import load_calls, store_calls
from .C02 import action_calls


def uncast(e):
    e = deep_strip(e)
    while e[0] == "cast":
        e = deep_strip(e[1])
    return e


def rule_a(ctx):
    F = ctx.F
    rid = "C10.a"
    ctx.rule(rid, "report-and-clear is one RMW: a flag-backed slot yields Some only on the branch where an atomic RMW writing `false` observed "
                  "`true`; a channel-backed slot yields exactly what Channel::recv returned", floor=3)
    from .. import inline
    loads = [i for i in F.inst if i.local and i.body is not None and re.search(r"Exfiltrator>::load$", i.name)]
    for l0 in loads:
        ctx.fn(l0)
        key = "load<%s>" % exf_of(l0.name)
        # normal form: private helpers and std adapters (`.ok().map(|_| signal)`) inlined; the channel's and other exfiltrators' methods stay calls
        l = inline.cached(F, l0, keep=lambda c: c.name.startswith("signal_hook::low_level::channel::Channel::<") or re.search(r"Exfiltrator>::\w+$", c.name) is not None,
                          tag="exf", hof=True, thread=True)
        somes = [(bb, si, s) for bb, bl in enumerate(l.blocks) for si, s in enumerate(bl["s"]) if s["k"] == "assign" and s["r"]["k"] == "aggregate"
                 and s["r"].get("def") == "core::option::Option" and s["r"]["variant"] == "Some"]
        ats = [s for s in sites(F, l) if s.aty == "bool"]
        if ats:
            okk = bool(somes)
            why = []
            plain_loads = [s for s in ats if s.op == "load"]
            for (bb, si, s) in somes:
                facts = facts_at(l, bb)
                good = False
                for a in ats:
                    if a.op in ("compare_exchange", "compare_exchange_weak"):
                        exp = [fold(e) for e in flow(l).term_arg(a.bb, 1)]; new = [fold(e) for e in flow(l).term_arg(a.bb, 2)]
                        succeeded = any((ce[0] == "call" and (ce[3] or "").endswith("Result::<T, E>::is_ok") and truth(inf) is True and _arg_from(l, ce, a.bb)) or
                                        (ce[0] == "discr" and strip(ce[1])[0] == "call" and strip(ce[1])[1] == a.bb and inf == ("eq", 0)) for (ce, inf, b) in facts)
                        if exp == [1] and new == [0] and succeeded:
                            good = True
                    if a.op == "swap":
                        new = [fold(e) for e in flow(l).term_arg(a.bb, 1)]
                        was_true = any(ce[0] == "call" and ce[1] == a.bb and truth(inf) is True for (ce, inf, b) in facts)
                        if new == [0] and was_true:
                            good = True
                    if a.op == "fetch_and":
                        new = [fold(e) for e in flow(l).term_arg(a.bb, 1)]
                        was_true = any(ce[0] == "call" and ce[1] == a.bb and truth(inf) is True for (ce, inf, b) in facts)
                        if new == [0] and was_true:
                            good = True
                if not good:
                    okk = False; why.append({"where": s["sp"], "facts": [(show(c), i) for c, i, _ in facts]})
            ctx.check(okk, rid, key + ":rmw-report-and-clear", "Some(signal) is produced only where compare_exchange(true -> false) succeeded (or swap(false) returned true)",
                      l0.span, why or {"atomic_ops": [a.op for a in ats]})
        else:
            # channel-backed or delegating: the returned value derives from Channel::recv / the delegate's load
            rets = [deep_strip(e) for rb in l.exits() for e in flow(l).place({"l": 0, "p": []}, (rb, len(l.stmts(rb))))]
            d = deps(l, rets)
            calls = {(l.term(x[1]).get("def") or "") for x in d if x[0] == "call"}
            srcs = [c for c in calls if c.endswith("Channel::<T>::recv") or c.endswith("Exfiltrator::load") or "Exfiltrator>::load" in c]
            # through and_then(|s| s.recv()) the recv call sits in the closure
            ctx.check(bool(srcs), rid, key + ":value-from-recv", "the reported record is what the per-signal channel (or the delegate exfiltrator) handed out: taken exactly once",
                      l0.span, sorted(calls))


def _arg_from(m, ce, call_bb):
    for a in flow(m).term_arg(ce[1], 0):
        if mentions(a, lambda x: x[0] == "call" and x[1] == call_bb):
            return True
    return False


def rule_b(ctx):
    F = ctx.F
    rid = "C10.b"
    ctx.rule(rid, "index agreement: Pending::next passes the same position as slot index and as signal number; the action indexes `slots` with its "
                  "captured signal, which is the signal given to the registration and to init", floor=9)
    from .nf import NF as _NF0
    for n0 in pending_next(F):
        ctx.fn(n0)
        n = _NF0(F, n0)
        key = "next<%s>" % exf_of(n0.name)
        for bb, t in load_calls(F, n):
            sig = [uncast(e) for e in flow(n).term_arg(bb, 2)]
            idx = [uncast(x) for x in slot_index_exprs(n, flow(n).term_arg(bb, 1))]
            if not idx:
                # the slot is not obtained by indexing (e.g. `slots.iter().enumerate()` pairs element and number — a std contract): nothing to compare
                ctx.ok(rid, key + ":slot-index=signal-number", "slot and signal number are paired by an iterator adapter, not by an index expression (not compared)", t["sp"])
                continue
            okk = bool(idx) and bool(sig) and all(i == s for i in idx for s in sig) and all(i[0] == "field" and i[2] == "position" for i in idx)
            ctx.check(okk, rid, key + ":slot-index=signal-number", "load(&slots[p], p as c_int) with the same position p", t["sp"], {"slot_index": [show(i) for i in idx], "signal": [show(s) for s in sig]})
    adds = insts(F, r"^<signal_hook::iterator::backend::PendingSignals<.*> as signal_hook::iterator::backend::AddSignal>::add_signal$", "PendingSignals::add_signal", 3)
    from .nf import NF as _NF
    for a0 in adds:
        ctx.fn(a0)
        a = _NF(F, a0)
        key = "add_signal<%s>" % exf_of(a0.name)
        # the action: the closure value handed to the registry
        adefs = set()
        for rb_, rt_ in a.calls():
            if (rt_.get("def") or "").startswith("signal_hook_registry::register"):
                for e_ in flow(a).term_arg(rb_, 1):
                    e_ = deep_strip(e_)
                    if e_[0] == "agg" and e_[1][0] == "closure":
                        adefs.add(e_[1][1])
        cons = [c_ for c_ in closure_constructions(a) if c_[2]["def"] in adefs and not a.blocks[c_[0]].get("dead")]
        regs = [(bb, t) for bb, t in a.calls() if (t.get("def") or "").startswith("signal_hook_registry::register")]
        inits = [(bb, t) for bb, t in a.calls() if (t.get("def") or "").endswith("Exfiltrator::init")]
        if len(cons) != 1 or len(regs) != 1:
            raise AnchorLost("add_signal: closure / registration")
        cb, csi, rv = cons[0]
        ups = [[uncast(e) for e in flow(a).operand(o, (cb, csi))] for o in rv["ops"]]
        sig_up = [k for k, u in enumerate(ups) if u == [("param", 3)]]
        reg_sig = [uncast(e) for e in flow(a).term_arg(regs[0][0], 0)]
        ctx.check(len(sig_up) >= 1 and reg_sig == [("param", 3)], rid, key + ":registered-for-captured-signal", "the action captures `signal` and is registered for that same `signal`",
                  regs[0][1]["sp"], {"captures": [[show(e) for e in u] for u in ups], "registered_for": [show(e) for e in reg_sig]})
        for ib, it in inits:
            slot = [deep_strip(e) for e in flow(a).term_arg(ib, 1)]
            idx = []
            for e in slot:
                x = e
                while x[0] in ("ref", "deref"):
                    x = deep_strip(x[1])
                if x[0] == "index":
                    idx.append(uncast(x[2]))
            s2 = [uncast(e) for e in flow(a).term_arg(ib, 2)]
            ctx.check(idx == [("param", 3)] and s2 == [("param", 3)], rid, key + ":init-same-slot", "init(&slots[signal], signal)", it["sp"], {"index": [show(i) for i in idx], "signal": [show(s) for s in s2]})
        # in the closure: slots[captured signal], store(.., captured signal, ..)
        cl = [c for c in F.inst if c.kind == "closure" and c.body is not None and c.defp == rv["def"] and
              (rv.get("ty") is None or rv["ty"].replace("::<", "<") == ("{closure@%s}" % c.name).replace("::<", "<"))]
        if len(cl) != 1 or not sig_up:
            raise AnchorLost("action closure of %s" % a0.name)
        from .nf import NF
        cl = NF(F, cl[0]); k = sig_up[0]; ks = set(sig_up)
        stc = store_calls(F, cl)
        if not stc:
            raise AnchorLost("the iterator action no longer calls Exfiltrator::store")
        for sb, st in stc:
            slot = [deep_strip(e) for e in flow(cl).term_arg(sb, 1)]
            idx = []
            for e in slot:
                x = e
                while x[0] in ("ref", "deref"):
                    x = deep_strip(x[1])
                if x[0] == "index":
                    idx.append(uncast(x[2]))
            s2 = [uncast(e) for e in flow(cl).term_arg(sb, 2)]

            def is_up(e):
                if e[0] != "field" or e[3] not in ks:
                    return False
                b = deep_strip(e[1])
                while b[0] in ("deref", "ref"):
                    b = deep_strip(b[1])
                return b == ("param", 1)
            ctx.check(bool(idx) and all(is_up(i) for i in idx) and all(is_up(s) for s in s2), rid, key + ":action-uses-own-slot", "the action stores into slots[captured signal] "
                      "and passes the captured signal", st["sp"], {"index": [show(i) for i in idx], "signal": [show(s) for s in s2]})


def rule_c(ctx):
    F = ctx.F
    rid = "C10.c"
    ctx.rule(rid, "faithful record: the dispatcher hands every action its own `info` argument; the action forwards it to store; the raw exfiltrator "
                  "sends a by-value copy of it; WithOrigin delegates store/load/init to the raw exfiltrator on the same slot", floor=6)
    from . import reg
    h, A = reg.handler_n(F)
    found = reg.action_calls(F, A)
    if not found:
        raise AnchorLost("action call site of the dispatcher")
    for (bb, t) in found:
        d = deps(A, flow(A).term_arg(bb, 1))
        cur = {x[1] for x in d if x[0] == "param"}
        ctx.check(cur == {2}, rid, "dispatcher:info-argument", "the record passed to actions derives from the handler's own `info` pointer only", t["sp"], sorted(cur))
    from .nf import NF
    for cl0 in action_closures(F):
        cl = NF(F, cl0)
        stc = store_calls(F, cl)
        if not stc:
            raise AnchorLost("the iterator action no longer calls Exfiltrator::store")
        for sb, st in stc:
            a = [deep_strip(e) for e in flow(cl).term_arg(sb, 3)]
            okk = all(strip(e[1] if e[0] == "ref" else e) in (("param", 2), ("deref", ("param", 2))) or deps(cl, [e], follow=lambda d: False) == {("param", 2)} for e in a)
            ctx.check(okk, rid, "action<%s>:forwards-info" % exf_of(cl.name), "the action passes its own siginfo argument to store", st["sp"], [show(e) for e in a])
    raw = insts(F, r"^<signal_hook::iterator::exfiltrator::raw::WithRawSiginfo as signal_hook::iterator::exfiltrator::sealed::Exfiltrator>::store$", "WithRawSiginfo::store", 1)[0]
    ctx.fn(raw)
    sends = [(bb, t) for bb, t in raw.calls() if (t.get("def") or "").endswith("Channel::<T>::send")]
    okk = len(sends) == 1
    if okk:
        v = deps(raw, flow(raw).term_arg(sends[0][0], 1), follow=lambda d: False)
        okk = {x for x in v if x[0] in ("param", "call")} == {("param", 4)}
        ch = deps(raw, flow(raw).term_arg(sends[0][0], 0))
        okk = okk and ("param", 2) in ch
    ctx.check(okk, rid, "raw:sends-copy-of-info", "WithRawSiginfo::store sends *info (a copy of the handler's record) into the channel of that slot", raw.span, None)
    for meth, nargs in (("store", 4), ("load", 3), ("init", 3)):
        o = insts(F, r"^<signal_hook::iterator::exfiltrator::origin::WithOrigin as signal_hook::iterator::exfiltrator::sealed::Exfiltrator>::%s$" % meth, "WithOrigin::" + meth, 1)[0]
        ctx.fn(o)
        dl = [(bb, t) for bb, t in o.calls() if t.get("f") is not None and re.search(r"raw::WithRawSiginfo as .*Exfiltrator>::%s$" % meth, F.inst[t["f"]].name)]
        okk = len(dl) == 1
        if okk:
            bb, t = dl[0]
            for k in range(1, nargs):
                a = [deep_strip(e) for e in flow(o).term_arg(bb, k)]
                if not all(strip(e[1] if e[0] == "ref" and e[1][0] == "deref" else e) in (("param", k + 1), ("deref", ("param", k + 1))) or e == ("param", k + 1) for e in a):
                    okk = False
        ctx.check(okk, rid, "origin:%s-delegates" % meth, "WithOrigin::%s delegates to the raw exfiltrator with the same slot/signal/info" % meth, o.span, None)


def rule_g(ctx):
    """a delivery is recorded: the flag-backed exfiltrator's store raises the flag — an atomic write of the constant true into its slot argument,
    exactly once on every path (a store that is skipped, conditional, or writes false loses the delivery although the consumer is woken)"""
    F = ctx.F
    rid = "C10.g"
    ctx.rule(rid, "SignalOnly::store writes the constant true into the slot it is given, on every path", floor=1)
    from .nf import NF
    from ..atomics import sites
    from .util import exactly_once
    st0 = insts(F, r"^<signal_hook::iterator::exfiltrator::SignalOnly as signal_hook::iterator::exfiltrator::sealed::Exfiltrator>::store$", "SignalOnly::store", 1)[0]
    ctx.fn(st0)
    n = inline.cached(F, st0, keep=lambda c: False, tag="c10g", hof=True, thread=True)
    ws = [x for x in sites(F, n) if x.aty == "bool" and x.op in ("store", "swap", "fetch_or", "compare_exchange", "fetch_and", "fetch_xor", "fetch_nand")]
    good = []
    why = []
    for x in ws:
        v = [fold(e) for e in flow(n).term_arg(x.bb, 1)] if x.op in ("store", "swap", "fetch_or") else None
        on_slot = bool(x.recv) and all(deps(n, [r_]) & {("param", 2)} for r_ in x.recv)
        if v == [1] and on_slot:
            good.append(x.bb)
        else:
            why.append({"op": x.op, "value": v, "on_the_slot_argument": on_slot, "where": x.sp})
    once, w2 = exactly_once(n, good) if good else (False, "no atomic write of true into the slot")
    ctx.check(bool(good) and not why and once, rid, "flag-raised", "the flag of the slot argument is set to true exactly once per call, unconditionally", st0.span,
              {"other_writes": why, "paths": w2})


def rule_d(ctx):
    """each delivery yields at most one, faithful record: the per-signal channel must hand every cell index to exactly one owner"""
    from .C08 import rule_e as coherence
    from .C18 import _Alias
    ctx.rule("C10.d", "the channel behind the info-carrying exfiltrators hands each cell index to one owner at a time: take/give CAS loops recompute "
                      "the returned index and the new queue word from the snapshot the successful CAS compared against (shared with C08.e)", floor=3)
    coherence(_Alias(ctx, "C10.d"))
    from .C07 import rule_a as typestate
    ctx.rule("C10.e", "a record is read out of its cell before the cell's index is handed back (slot-index typestate of the per-signal channel, "
                      "shared with C07.a): otherwise a concurrent delivery overwrites the record being reported", floor=7)
    typestate(_Alias(ctx, "C10.e"))


def rule_f(ctx):
    """each delivery yields at most one record only if at most one action per (instance, signal) feeds the slot: check-register-record must be
    one critical section of the id-table mutex (shared with C12.f)"""
    from .C12 import rule_f as one_action
    one_action(ctx, rid="C10.f")


def run(ctx):
    ctx.guarded("C10.f", rule_f)
    ctx.guarded("C10.d", rule_d)
    ctx.guarded("C10.a", rule_a)
    ctx.guarded("C10.b", rule_b)
    ctx.guarded("C10.c", rule_c)
    ctx.guarded("C10.g", rule_g)
    ctx.note("not decided: counting inequalities over histories (yielded <= delivered); per-signal record order (that is the channel's FIFO order, C06)")
