"""C04 — a pre-existing handler is chained: once per delivery, first, same arguments (structural part)."""
import re
from .. import cfg
from ..anchors import handler, is_user_code, action_site
from ..conds import facts_at, truth
from ..facts import keyname, AnchorLost
from ..flow import flow, deps, deep_strip, strip, show, mentions, fold
from .util import call_sites, exactly_once, at_most_once, foreign
from .C02 import slot_lookup, registering
from . import reg
from .reg import DATA_T, FB_T

SA_SIGINFO = 4
HANDLER_FIELDS = ("sa_sigaction", "sa_handler")


def chain_calls(F, A, lbb, fb_reads):
    """indirect calls through a saved sigaction's handler field in the dispatcher's normal form, split by where the saved disposition
    comes from: the looked-up slot or the fallback guard. returns (slot, fallback, other) lists of (bb, term)"""
    fl = flow(A)
    slot, fb, other = [], [], []
    for bb, t in A.calls():
        if not t.get("indirect"):
            continue
        fp = fl.term_operand(bb, t["fop"])
        if not (fp and all(mentions(e, lambda x: x[0] == "field" and x[2] in HANDLER_FIELDS) for e in fp)):
            other.append((bb, t)); continue
        d = deps(A, fp)
        if ("call", lbb) in d:
            slot.append((bb, t))
        elif any(("call", r) in d for r in fb_reads):
            fb.append((bb, t))
        else:
            other.append((bb, t))
    return slot, fb, other


def fptr_tests(A, group_deps_pred):
    """switch edges that imply `saved handler pointer == constant` (no real handler to chain to): {(src, dst)}"""
    from ..conds import switch_edges
    drop = set()
    for (b, tgt, lab, exprs, t) in switch_edges(A):
        for e in exprs:
            e = deep_strip(e)
            if e[0] != "binop" or e[1] not in ("Eq", "Ne"):
                continue
            x, y = deep_strip(e[2]), deep_strip(e[3])
            for p, q in ((x, y), (y, x)):
                if fold(q) is None or p[0] == "binop":
                    continue
                if not mentions(p, lambda z: z[0] == "field" and z[2] in HANDLER_FIELDS):
                    continue
                if not group_deps_pred(p):
                    continue
                val = int(lab[3:]) if lab.startswith("sw:") else None
                is_true = (val is not None and val != 0) or (val is None and [v for v, _ in t["vals"]] == [0])
                is_false = (val == 0)
                if (e[1] == "Eq" and is_true) or (e[1] == "Ne" and is_false):
                    drop.add((b, tgt))
    return drop


def rule_a(ctx):
    F = ctx.F
    rid = "C04.a"
    ctx.rule(rid, "on the slot-present path the chained previous handler is invoked exactly once, outside any loop, before the first action", floor=3)
    h, A = reg.handler_n(F)
    ctx.fn(h)
    lk = slot_lookup(F, A)
    if len(lk) != 1:
        raise AnchorLost("slot lookup in the dispatcher")
    lbb = lk[0][0]
    L = reg.locks(F)
    fb_reads = [bb for bb, t in reg.calls_to(A, L.readers(FB_T))]
    slot, fb, other = chain_calls(F, A, lbb, fb_reads)
    ctx.check(bool(slot), rid, "slot-chain-call", "the found slot's previous handler is called through its saved sigaction", h.span, [t["sp"] for _, t in slot])
    if not slot:
        return None
    cyc = [t["sp"] for bb, t in slot if cfg.in_cycle(A, bb)]
    ctx.check(not cyc, rid, "chain-not-in-loop", "the chained call is outside any loop", slot[0][1]["sp"], {"in_loop": cyc, "why": "previous handler would run once per action"})
    ac = reg.action_calls(F, A)
    # paths on which the saved pointer is a real handler (edges implying `fptr == 0 / SIG_DFL / SIG_IGN` removed) reach an action only
    # through a chained call
    drop = fptr_tests(A, lambda p: ("call", lbb) in deps(A, [p]))
    r = cfg.reachable_without_edges(A, 0, drop, avoid={bb for bb, _ in slot})
    missed = [t["sp"] for abb, t in ac if abb in r]
    ctx.check(bool(ac) and not missed and bool(drop), rid, "chain-before-actions", "whenever the saved disposition is a real handler, it is called before any action", slot[0][1]["sp"],
              {"actions_reachable_without_chained_call": missed, "no_handler_edges": len(drop)})
    okk, why = at_most_once(A, [bb for bb, _ in slot + fb])
    ctx.check(okk, rid, "chain-at-most-once", "no path invokes the previous handler twice", h.span, why)
    return h, A, lbb, fb_reads, slot, fb


def rule_b(ctx, h, A, lbb, fb_reads, slot, fb):
    F = ctx.F
    rid = "C04.b"
    ctx.rule(rid, "each chained call passes the dispatcher's own arguments in order; the one-argument convention is used iff SA_SIGINFO is "
                  "clear, the three-argument one iff set; every call is guarded by fptr not in {0, SIG_DFL, SIG_IGN}", floor=6)
    fl = flow(A)
    for gname, grp in (("slot", slot), ("fallback", fb)):
        if not grp:
            continue
        arities = sorted(len(t["args"]) for _, t in grp)
        ctx.check(arities == [1, 3], rid, "two-conventions:%s" % gname, "exactly one one-argument and one three-argument indirect call", h.span, arities)
        for bb, t in grp:
            n = len(t["args"])
            facts = facts_at(A, bb)
            flag = None
            not_consts = set()
            for (ce, inf, sb) in facts:
                tv = truth(inf)
                if ce[0] != "binop" or tv is None:
                    continue
                a, b = deep_strip(ce[2]), deep_strip(ce[3])
                op = ce[1]
                for x, y in ((a, b), (b, a)):
                    if x[0] == "binop" and x[1] == "BitAnd" and fold(y) == 0:
                        terms = [deep_strip(x[2]), deep_strip(x[3])]
                        has_flags = any(mentions(q, lambda z: z[0] == "field" and z[2] == "sa_flags") for q in terms)
                        has_const = any(fold(q) == SA_SIGINFO for q in terms)
                        if has_flags and has_const:
                            if op == "Eq":
                                flag = (not tv)
                            elif op == "Ne":
                                flag = tv
                    if mentions(x, lambda z: z[0] == "field" and z[2] in HANDLER_FIELDS) and x[0] != "binop" and fold(y) is not None:
                        if (op == "Ne" and tv) or (op == "Eq" and not tv):
                            not_consts.add(fold(y))
            want = (n == 3)
            ctx.check(flag is want, rid, "convention:%s:%d-arg" % (gname, n), "%d-argument call is control-dependent on SA_SIGINFO being %s" % (n, "set" if want else "clear"),
                      t["sp"], {"sa_siginfo_known_to_be": flag, "facts": [(show(c), i) for c, i, _ in facts][:12]})
            ctx.check({0, 1} <= not_consts, rid, "guard:%s:%d-arg" % (gname, n), "the call is guarded by fptr != 0 / SIG_DFL / SIG_IGN", t["sp"], sorted(not_consts))
            okk = all([deep_strip(x) for x in fl.term_arg(bb, k)] == [("param", k + 1)] for k in range(n))
            ctx.check(okk, rid, "args:%s:%d-arg" % (gname, n), "the chained call passes the dispatcher's own (sig, info, context) unchanged and in order", t["sp"],
                      [[show(x) for x in fl.term_arg(bb, k)] for k in range(n)])


def install_calls(F, n):
    """libc::sigaction calls in a normal form whose new-action argument is not null: [(bb, term)]"""
    fl = flow(n)
    out = []; queries = []
    for bb, t, c in call_sites(F, n, foreign("sigaction")):
        newp = [deep_strip(e) for e in fl.term_arg(bb, 1)]
        if newp and all((e[0] == "call" and (e[3] or "").startswith("core::ptr::null")) or fold(e) == 0 for e in newp):
            queries.append((bb, t))
        else:
            out.append((bb, t))
    return out, queries


def storage_atoms(n, exprs):
    """the storage whose address is passed: identified by the call that created it (mem::zeroed / MaybeUninit::zeroed / uninit)"""
    return {x for x in deps(n, exprs) if x[0] == "call" and re.search(r"(mem::zeroed|MaybeUninit::<T>::(zeroed|uninit))$", n.term(x[1]).get("def") or "")}


def rule_c(ctx):
    F = ctx.F
    rid = "C04.c"
    ctx.rule(rid, "race window: on first registration the previous disposition (queried for the same signal) is stored into the fallback lock — "
                  "barrier included — before the sigaction call that installs our handler, which precedes the publish of the snapshot", floor=3)
    L = reg.locks(F)
    for fn, r0, r in registering(F):
        ctx.fn(r0)
        inst_calls, queries = install_calls(F, r)
        fb_store = reg.calls_to(r, L.stores(FB_T))
        data_store = reg.calls_to(r, L.stores(DATA_T))
        if not inst_calls or not data_store:
            raise AnchorLost("registration: installing call / publish call")
        dom = cfg.dominators(r)
        fl = flow(r)
        for ibb, it in inst_calls:
            okk = any(fbb in dom[ibb] and fbb != ibb for fbb, _ in fb_store)
            ctx.check(okk, rid, "fallback-before-install@%s" % keyname(r0.name), "the fallback store (with its grace period) dominates the installing call", it["sp"],
                      {"fallback_stores": [t["sp"] for _, t in fb_store]})
            before = [t["sp"] for dbb, t in data_store if ibb in cfg.reachable_after(r, dbb, unwind=False)]
            ctx.check(not before, rid, "install-before-publish@%s" % keyname(r0.name), "no publish of the snapshot can precede the installing call", it["sp"], before)
            late = [t["sp"] for fbb2, t in fb_store if fbb2 in cfg.reachable_after(r, ibb, unwind=False)]
            ctx.check(not late, rid, "fallback-kept-until-publish@%s" % keyname(r0.name), "the fallback is not overwritten between the installing call and the publish "
                      "(a delivery in that window still finds it)", it["sp"], late)
            sig = [deep_strip(e) for e in fl.term_arg(ibb, 0)]
            for fbb, ft in fb_store:
                va = storage_atoms(r, fl.term_arg(fbb, 1))
                det = [(qbb, qt) for qbb, qt in queries if storage_atoms(r, fl.term_arg(qbb, 2)) & va and fbb in cfg.reachable_after(r, qbb, unwind=False)]
                same = bool(det) and all([deep_strip(e) for e in fl.term_arg(qbb, 0)] == sig for qbb, _ in det)
                ctx.check(bool(det) and same, rid, "fallback-value@%s" % keyname(r0.name), "the stored fallback is the disposition queried for the same signal number",
                          ft["sp"], {"derives_from_query": bool(det), "same_signal": same})


def rule_d(ctx, h, A, lbb, fb_reads, slot, fb):
    F = ctx.F
    rid = "C04.d"
    ctx.rule(rid, "the dispatcher takes the fallback guard before the data guard; the fallback chain is entered only when the slot lookup failed "
                  "and is control-dependent on prev.signal == sig", floor=3)
    L = reg.locks(F)
    rd = [bb for bb, t in reg.calls_to(A, L.readers(DATA_T))]
    dom = cfg.dominators(A)
    okk = len(fb_reads) == 1 and len(rd) == 1 and fb_reads[0] in dom[rd[0]] and fb_reads[0] != rd[0]
    ctx.check(okk, rid, "fallback-guard-first", "the fallback guard is taken before the data guard", h.span,
              "reverse order loses the chain when another signal's registration overwrites the fallback in between (oracle/order_arguments.md)")
    if not fb:
        raise AnchorLost("fallback chain call in the dispatcher")
    for bb, t in fb:
        facts = facts_at(A, bb)
        miss = eqsig = False
        for (ce, inf, sb) in facts:
            if ce[0] == "discr" and mentions(ce, lambda x: x[0] == "call" and x[1] == lbb):
                if inf == ("eq", 0) or (inf[0] == "ne" and 1 in inf[1]):
                    miss = True
            if ce[0] == "binop" and ce[1] in ("Eq", "Ne"):
                a, b = deep_strip(ce[2]), deep_strip(ce[3])
                pair = (a, b)
                if any(x == ("param", 1) for x in pair) and any(x[0] == "field" and x[2] == "signal" for x in pair):
                    tv = truth(inf)
                    if (ce[1] == "Eq" and tv) or (ce[1] == "Ne" and tv is False):
                        eqsig = True
        n = len(t["args"])
        ctx.check(miss, rid, "fallback-only-on-miss:%d-arg" % n, "the fallback chain is reached only when no slot exists for the signal", t["sp"], [(show(c), i) for c, i, _ in facts][:12])
        ctx.check(eqsig, rid, "fallback-signal-match:%d-arg" % n, "the fallback chain is control-dependent on prev.signal == sig", t["sp"], [(show(c), i) for c, i, _ in facts][:12])


def rule_e(ctx):
    """the handler that is chained is exactly the one our handler replaced: it is the old action the installing sigaction call handed back
    (atomic exchange), not the result of an earlier, separate query"""
    F = ctx.F
    rid = "C04.e"
    ctx.rule(rid, "the previous disposition stored in the slot is the `oldact` written by the installing sigaction call itself (non-null out "
                  "parameter), so no foreign handler installed in between is lost", floor=2)
    for fn, r0, n in registering(F):
        ctx.fn(r0)
        fl = flow(n)
        inst_calls, queries = install_calls(F, n)
        if len(inst_calls) != 1:
            raise AnchorLost("installing sigaction call in %s (%d found)" % (r0.name, len(inst_calls)))
        bb, t = inst_calls[0]
        old = [deep_strip(e) for e in fl.term_arg(bb, 2)]
        isnull = all((e[0] == "call" and (e[3] or "").startswith("core::ptr::null")) or fold(e) == 0 for e in old)
        oa = storage_atoms(n, fl.term_arg(bb, 2))
        ctx.check(not isnull and bool(oa), rid, "install-returns-old@%s" % keyname(r0.name), "the installing sigaction call receives a non-null `oldact` out parameter", t["sp"],
                  [show(e) for e in old])
        if not oa:
            continue
        okk = False; found = []
        for abb, bl in enumerate(n.blocks):
            for si, st in enumerate(bl["s"]):
                if st["k"] == "assign" and st["r"]["k"] == "aggregate" and st["r"].get("def") == "signal_hook_registry::Slot":
                    fi = st["r"]["fields"].index("prev")
                    pa = storage_atoms(n, fl.operand(st["r"]["ops"][fi], (abb, si)))
                    found.append(sorted(pa))
                    if pa & oa and abb in cfg.reachable_after(n, bb, unwind=False):
                        okk = True
        ctx.check(okk, rid, "slot-prev-is-exchanged@%s" % keyname(r0.name), "Slot.prev.info is the structure the installing call filled in", r0.span,
                  {"slot_prev_storage": found, "oldact_storage": sorted(oa), "why": "a handler installed by another thread between a separate query and the install would never be chained"})


def run(ctx):
    ctx.guarded("C04.e", rule_e)
    r = ctx.guarded("C04.a", rule_a)
    if r:
        ctx.guarded("C04.b", rule_b, *r)
        ctx.guarded("C04.d", rule_d, *r)
    ctx.guarded("C04.c", rule_c)
    ctx.note("not decided: atomicity with respect to foreign sigaction callers (documented race); what the foreign handler does")
    ctx.assume("the order arguments of oracle/order_arguments.md (why each 'A before B' is a necessary condition)")
