"""C04 — a pre-existing handler is chained: once per delivery, first, same arguments (structural part)."""
import re
from .. import cfg
from ..anchors import handler, is_user_code, action_site
from ..conds import facts_at, truth
from ..facts import keyname, AnchorLost
from ..flow import flow, deps, deep_strip, strip, show, mentions, fold
from .util import call_sites, exactly_once, at_most_once, foreign
from .C02 import data_reads, action_calls, slot_lookup, _register_impls

SA_SIGINFO = 4
FB_T = "core::option::Option<signal_hook_registry::Prev>"
DATA_T = "signal_hook_registry::SignalData"


def chain_fn(F):
    """the function performing the indirect call to the saved previous handler"""
    c = []
    for i in F.inst:
        if i.local and i.body is not None and i.crate == "signal_hook_registry":
            ind = [(bb, t) for bb, t in i.calls() if t.get("indirect")]
            if ind and all(any(mentions(e, lambda x: x[0] == "field" and x[2] in ("sa_sigaction", "sa_handler")) for e in flow(i).term_operand(bb, t["fop"])) for bb, t in ind):
                c.append(i)
    if len(c) != 1:
        raise AnchorLost("chaining function (indirect call through the saved sigaction): found %s" % [x.name for x in c])
    return c[0]


def rule_a(ctx):
    F = ctx.F
    rid = "C04.a"
    ctx.rule(rid, "on the slot-present path the chained previous handler is invoked exactly once, outside any loop, before the first action", floor=3)
    h = handler(F); ex = chain_fn(F)
    ctx.fn(h); ctx.fn(ex)
    lk = slot_lookup(F, h)
    if len(lk) != 1:
        raise AnchorLost("slot lookup in the dispatcher")
    lbb = lk[0][0]
    calls = [(bb, t) for bb, t in h.calls() if t.get("f") == ex.id]
    slot_calls = [(bb, t) for bb, t in calls if ("call", lbb) in deps(h, flow(h).term_arg(bb, 0))]
    other = [(bb, t) for bb, t in calls if (bb, t) not in slot_calls]
    ctx.check(len(slot_calls) == 1, rid, "slot-chain-call", "one chained call for the found slot's previous handler", h.span, [t["sp"] for _, t in slot_calls])
    if len(slot_calls) != 1:
        return h, ex, None, other
    cbb, ct = slot_calls[0]
    ctx.check(not cfg.in_cycle(h, cbb), rid, "chain-not-in-loop", "the chained call is outside any loop", ct["sp"], "previous handler would run once per action")
    _, found = action_site(F)
    # blocks of the dispatcher through which actions are reached (the virtual call itself or the call of the helper containing it)
    ac = [((chain[0][1] if chain else abb), at) for (A, abb, at, chain) in found]
    dom = cfg.dominators(h)
    okk = bool(ac) and all(cbb in dom[abb] and cbb != abb for abb, _ in ac)
    ctx.check(okk, rid, "chain-before-actions", "the chained call dominates every action call", ct["sp"], {"actions": [t["sp"] for _, t in ac]})
    # at most one chained call on any path
    okk, why = at_most_once(h, [bb for bb, _ in calls])
    ctx.check(okk, rid, "chain-at-most-once", "no path invokes the previous handler twice", h.span, why)
    return h, ex, (cbb, ct), other


def rule_b(ctx, h, ex, slot_call, other):
    F = ctx.F
    rid = "C04.b"
    ctx.rule(rid, "the chained call receives the dispatcher's own three arguments in order; inside, the one-argument convention is used iff "
                  "SA_SIGINFO is clear, the three-argument one iff set; both pass the function's own parameters and are guarded by "
                  "fptr not in {0, SIG_DFL, SIG_IGN}", floor=6)
    for (bb, t) in ([slot_call] if slot_call else []) + other:
        fl = flow(h)
        okk = True
        for n in (1, 2, 3):
            e = [deep_strip(x) for x in fl.term_arg(bb, n)]
            if e != [("param", n)]:
                okk = False
        ctx.check(okk, rid, "args@bb:%s" % ("slot" if slot_call and bb == slot_call[0] else "fallback"),
                  "chained call passes (sig, info, context) unchanged", t["sp"], [[show(x) for x in fl.term_arg(bb, n)] for n in (1, 2, 3)])
    ind = [(bb, t) for bb, t in ex.calls() if t.get("indirect")]
    arities = sorted(len(t["args"]) for _, t in ind)
    ctx.check(arities == [1, 3], rid, "two-conventions", "exactly one one-argument and one three-argument indirect call", ex.span, arities)
    fl = flow(ex)
    for bb, t in ind:
        n = len(t["args"])
        facts = facts_at(ex, bb)
        flag = None
        not_consts = set()
        for (ce, inf, sb) in facts:
            tv = truth(inf)
            if ce[0] != "binop" or tv is None:
                continue
            a, b = deep_strip(ce[2]), deep_strip(ce[3])
            op = ce[1]
            # (sa_flags & SA_SIGINFO) ==/!= 0
            for x, y in ((a, b), (b, a)):
                if x[0] == "binop" and x[1] == "BitAnd" and fold(y) == 0:
                    terms = [deep_strip(x[2]), deep_strip(x[3])]
                    has_flags = any(mentions(q, lambda z: z[0] == "field" and z[2] == "sa_flags") for q in terms)
                    has_const = any(fold(q) == SA_SIGINFO for q in terms)
                    if has_flags and has_const:
                        if op == "Eq":
                            flag = (not tv)     # set?
                        elif op == "Ne":
                            flag = tv
                if mentions(x, lambda z: z[0] == "field" and z[2] in ("sa_sigaction", "sa_handler")) and x[0] != "binop" and fold(y) is not None:
                    if (op == "Ne" and tv) or (op == "Eq" and not tv):
                        not_consts.add(fold(y))
        want = (n == 3)
        ctx.check(flag is want, rid, "convention:%d-arg" % n, "%d-argument call is control-dependent on SA_SIGINFO being %s" % (n, "set" if want else "clear"),
                  t["sp"], {"sa_siginfo_known_to_be": flag, "facts": [(show(c), i) for c, i, _ in facts]})
        ctx.check({0, 1} <= not_consts, rid, "guard:%d-arg" % n, "the call is guarded by fptr != 0 / SIG_DFL / SIG_IGN", t["sp"], sorted(not_consts))
        okk = all([deep_strip(x) for x in fl.term_arg(bb, k)] == [("param", k + 2)] for k in range(n))
        ctx.check(okk, rid, "passes-own-params:%d-arg" % n, "the indirect call passes the function's own parameters in order", t["sp"],
                  [[show(x) for x in fl.term_arg(bb, k)] for k in range(n)])
        fp = fl.term_operand(bb, t["fop"])
        ctx.check(all(mentions(e, lambda z: z[0] == "field" and z[2] in ("sa_sigaction", "sa_handler")) for e in fp), rid, "fptr:%d-arg" % n,
                  "the function pointer is the saved sigaction's handler", t["sp"], [show(e) for e in fp])


def installers(F):
    h = handler(F)
    return [i for i in F.inst if i.body is not None and any(k == "reify" and t == h.id for (t, k, b) in F.edges(i))]


def rule_c(ctx):
    F = ctx.F
    rid = "C04.c"
    ctx.rule(rid, "race window: on first registration the previous disposition (queried for the same signal) is stored into the fallback lock — "
                  "barrier included — before the call that installs our handler, which precedes the publish of the snapshot", floor=3)
    ins = installers(F)
    if not ins:
        raise AnchorLost("installing function")
    for r in _register_impls(F):
        ctx.fn(r)
        inst_calls = [(bb, t) for bb, t in r.calls() if t.get("f") in [i.id for i in ins]]
        from .pub import publish_sites
        fb_sites = publish_sites(F, r, FB_T)
        fb_store = [(bb, t) for bb, t, gi, vi in fb_sites]
        fb_val = {bb: vi for bb, t, gi, vi in fb_sites}
        data_store = [(bb, t) for bb, t, gi, vi in publish_sites(F, r, DATA_T)]
        if not inst_calls or not data_store:
            raise AnchorLost("registration: installing call / publish call")
        dom = cfg.dominators(r)
        for ibb, it in inst_calls:
            okk = any(fbb in dom[ibb] and fbb != ibb for fbb, _ in fb_store)
            ctx.check(okk, rid, "fallback-before-install@%s" % keyname(r.name), "the fallback store (with its grace period) dominates the installing call", it["sp"],
                      {"fallback_stores": [t["sp"] for _, t in fb_store]})
            before = [t["sp"] for dbb, t in data_store if ibb in cfg.reachable_after(r, dbb, unwind=False)]
            ctx.check(not before, rid, "install-before-publish@%s" % keyname(r.name), "no publish of the snapshot can precede the installing call", it["sp"], before)
            late = [t["sp"] for fbb2, t in fb_store if fbb2 in cfg.reachable_after(r, ibb, unwind=False)]
            ctx.check(not late, rid, "fallback-kept-until-publish@%s" % keyname(r.name), "the fallback is not overwritten between the installing call and the publish "
                      "(a delivery in that window still finds it)", it["sp"], late)
            sig = [deep_strip(e) for e in flow(r).term_arg(ibb, 0)]
            for fbb, ft in fb_store:
                vd = deps(r, flow(r).term_arg(fbb, fb_val.get(fbb, 1)))
                det = [x for x in vd if x[0] == "call" and (r.term(x[1]).get("def") or "").endswith("Prev::detect")]
                same = False
                for x in det:
                    a = [deep_strip(e) for e in flow(r).term_arg(x[1], 0)]
                    same = (a == sig)
                ctx.check(bool(det) and same, rid, "fallback-value@%s" % keyname(r.name), "the stored fallback is the disposition queried for the same signal number",
                          ft["sp"], {"derives_from_detect": bool(det), "same_signal": same})


def rule_d(ctx, h, ex, other):
    F = ctx.F
    rid = "C04.d"
    ctx.rule(rid, "the dispatcher takes the fallback guard before the data guard; the fallback chain is entered only when the slot lookup failed "
                  "and is control-dependent on prev.signal == sig", floor=3)
    fb = [(bb, t) for bb, t in h.calls() if t.get("f") is not None and F.inst[t["f"]].name == "signal_hook_registry::half_lock::HalfLock::<%s>::read" % FB_T]
    rd = data_reads(F, h)
    dom = cfg.dominators(h)
    okk = len(fb) == 1 and len(rd) == 1 and fb[0][0] in dom[rd[0][0]] and fb[0][0] != rd[0][0]
    ctx.check(okk, rid, "fallback-guard-first", "the fallback guard is taken before the data guard", h.span,
              "reverse order loses the chain when another signal's registration overwrites the fallback in between (oracle/order_arguments.md)")
    lk = slot_lookup(F, h)
    lbb = lk[0][0]
    if not other:
        raise AnchorLost("fallback chain call in the dispatcher")
    for bb, t in other:
        facts = facts_at(h, bb)
        miss = eqsig = False
        for (ce, inf, sb) in facts:
            if ce[0] == "discr" and mentions(ce, lambda x: x[0] == "call" and x[1] == lbb):
                # lookup result is not Some
                if inf == ("eq", 0) or (inf[0] == "ne" and 1 in inf[1]):
                    miss = True
            if ce[0] == "binop" and ce[1] in ("Eq", "Ne"):
                a, b = deep_strip(ce[2]), deep_strip(ce[3])
                pair = (a, b)
                if any(x == ("param", 1) for x in pair) and any(x[0] == "field" and x[2] == "signal" for x in pair):
                    tv = truth(inf)
                    if (ce[1] == "Eq" and tv) or (ce[1] == "Ne" and tv is False):
                        eqsig = True
        ctx.check(miss, rid, "fallback-only-on-miss", "the fallback chain is reached only when no slot exists for the signal", t["sp"], [(show(c), i) for c, i, _ in facts])
        ctx.check(eqsig, rid, "fallback-signal-match", "the fallback chain is control-dependent on prev.signal == sig", t["sp"], [(show(c), i) for c, i, _ in facts])
        pd = deps(h, flow(h).term_arg(bb, 0))
        ctx.check(fb and ("call", fb[0][0]) in pd, rid, "fallback-from-guard", "the chained fallback is the one read through the fallback guard", t["sp"], sorted(map(str, pd))[:8])


def rule_e(ctx):
    """the handler that is chained is exactly the one our handler replaced: it is the old action the installing sigaction call handed back
    (atomic exchange), not the result of an earlier, separate query"""
    F = ctx.F
    rid = "C04.e"
    ctx.rule(rid, "the previous disposition stored in the slot is the `oldact` written by the installing sigaction call itself (non-null out "
                  "parameter), so no foreign handler installed in between is lost", floor=2)
    from ..flow import partial_fields
    for ins in installers(F):
        ctx.fn(ins)
        fl = flow(ins)
        calls = [(bb, t) for bb, t, c in call_sites(F, ins, foreign("sigaction"))]
        inst_calls = []
        for bb, t in calls:
            newp = [deep_strip(e) for e in fl.term_arg(bb, 1)]
            if all(e[0] == "call" and (e[3] or "").startswith("core::ptr::null") for e in newp):
                continue
            inst_calls.append((bb, t))
        if len(inst_calls) != 1:
            raise AnchorLost("installing sigaction call in %s" % ins.name)
        bb, t = inst_calls[0]
        old = [deep_strip(e) for e in fl.term_arg(bb, 2)]
        isnull = all((e[0] == "call" and (e[3] or "").startswith("core::ptr::null")) or fold(e) == 0 for e in old)
        # the storage whose address is passed: identified by the call that created it (mem::zeroed / MaybeUninit::zeroed / uninit)
        def storage_atoms(exprs):
            return {x for x in deps(ins, exprs) if x[0] == "call" and re.search(r"(mem::zeroed|MaybeUninit::<T>::(zeroed|uninit))$", ins.term(x[1]).get("def") or "")}
        oa = storage_atoms(fl.term_arg(bb, 2))
        ctx.check(not isnull and bool(oa), rid, "install-returns-old@%s" % keyname(ins.name), "the installing sigaction call receives a non-null `oldact` out parameter", t["sp"],
                  [show(e) for e in old])
        if not oa:
            continue
        okk = False; found = []
        for abb, bl in enumerate(ins.blocks):
            for si, st in enumerate(bl["s"]):
                if st["k"] == "assign" and st["r"]["k"] == "aggregate" and st["r"].get("def") == "signal_hook_registry::Prev":
                    fi = st["r"]["fields"].index("info")
                    pa = storage_atoms(fl.operand(st["r"]["ops"][fi], (abb, si)))
                    found.append(sorted(pa))
                    if pa & oa and abb in cfg.reachable_after(ins, bb, unwind=False):
                        okk = True
        ctx.check(okk, rid, "slot-prev-is-exchanged@%s" % keyname(ins.name), "Slot.prev.info is the structure the installing call filled in", ins.span,
                  {"prev_info_storage": found, "oldact_storage": sorted(oa), "why": "a handler installed by another thread between a separate query and the install would never be chained"})


def run(ctx):
    ctx.guarded("C04.e", rule_e)
    r = ctx.guarded("C04.a", rule_a)
    if r:
        h, ex, slot_call, other = r
        ctx.guarded("C04.b", rule_b, h, ex, slot_call, other)
        ctx.guarded("C04.d", rule_d, h, ex, other)
    ctx.guarded("C04.c", rule_c)
    ctx.note("not decided: atomicity with respect to foreign sigaction callers (documented race); what the foreign handler does")
    ctx.assume("the order arguments of oracle/order_arguments.md (why each 'A before B' is a necessary condition)")
