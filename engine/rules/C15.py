"""C15 — flags and conditional shutdown do exactly what the flag state dictates (structural part)."""
import re
from .. import cfg
from ..atomics import sites, ordering_names
from ..conds import facts_at, truth
from ..effects import Cone
from ..facts import keyname, AnchorLost
from ..flow import flow, deps, deep_strip, strip, show, mentions, fold
from .util import call_sites, exactly_once, closure_constructions, foreign


from .nf import NF


def upvar_path(cl, e):
    """expression is a (nested) capture of the closure: field k1 of (deref of) the closure's self parameter, possibly field k2 of that
    capture when it is itself a captured closure, ... -> [k1, k2, ..]; Deref::deref calls (Arc) are looked through"""
    path = []
    e = deep_strip(e)
    for _ in range(12):
        while e[0] in ("deref", "ref"):
            e = deep_strip(e[1])
        if e[0] == "call" and (e[3] or "").endswith("Deref::deref"):
            a = flow(cl).term_arg(e[1], 0)
            if len(a) != 1:
                return None
            e = deep_strip(a[0]); continue
        if e[0] == "field":
            path.insert(0, e[3]); e = deep_strip(e[1]); continue
        break
    if e == ("param", 1) and path:
        return path
    return None


def resolve_capture(agg, path):
    """the value captured under `path` in the closure aggregate built by the registering function: an expression over that function's
    parameters, or None"""
    e = agg
    for k in path:
        e = deep_strip(e)
        while e[0] in ("ref", "deref"):
            e = deep_strip(e[1])
        if e[0] == "agg" and e[1][0] in ("closure", "adt", "tuple") and k is not None and k < len(e[2]):
            e = e[2][k]            # a capture of a closure, or a field of a private wrapper the captured value was put into
        else:
            return None
    e = deep_strip(e)
    while e[0] in ("ref",):
        e = deep_strip(e[1])
    return e


def registered_actions(F, parent_def):
    """[(closure instance, its normal form, closure aggregate expression, parent instance, parent normal form, registration (bb, term))]:
    the closure value(s) the public function `parent_def` hands to the registry, judged in the parent's normal form (private helpers
    that build the action are inlined)"""
    ps = [i for i in F.inst if i.local and i.body is not None and i.defp == parent_def]
    if len(ps) != 1:
        raise AnchorLost("expected one instance of %s" % parent_def)
    p0 = ps[0]
    p = NF(F, p0)
    out = []
    regs = [(bb, t) for bb, t in p.calls() if t.get("f") is not None and F.inst[t["f"]].defp.startswith("signal_hook_registry::register")]
    for bb, t in regs:
        for e in flow(p).term_arg(bb, 1):
            e = deep_strip(e)
            if e[0] == "agg" and e[1][0] == "closure":
                cl = [i for i in F.inst if i.kind == "closure" and i.defp == e[1][1] and i.body is not None and
                      (e[1][2] is None or e[1][2].replace("::<", "<") == ("{closure@%s}" % i.name).replace("::<", "<"))]
                if not cl:
                    cl = [i for i in F.inst if i.kind == "closure" and i.defp == e[1][1] and i.body is not None]
                if cl:
                    out.append((cl[0], NF(F, cl[0]), e, p0, p, (bb, t)))
    return out


def capture_param(cl, agg, e):
    """which parameter of the registering function does expression e (inside the action) denote, through captures? -> n or None"""
    path = upvar_path(cl, e)
    if path is None:
        return None
    r = resolve_capture(agg, path)
    if r is not None and r[0] == "param":
        return r[1]
    return None


def rule_a(ctx):
    F = ctx.F
    rid = "C15.a"
    ctx.rule(rid, "the flag action stores the constant `true` (resp. the registered value) into the caller's atomic, unconditionally, exactly once, "
                  "and is registered for the caller's signal through the checked entry point", floor=6)
    for parent, want in (("signal_hook::flag::register", ("const", 1)), ("signal_hook::flag::register_usize", ("param", 3))):
        acts = registered_actions(F, parent)
        if len(acts) != 1:
            raise AnchorLost("%s: expected one action closure, found %d" % (parent, len(acts)))
        cl0, cl, agg, p0, p, (rbb, rt) = acts[0]
        ctx.fn(cl0); ctx.fn(p0)
        short = parent.split("::")[-1]
        ss = [s for s in sites(F, cl) if s.op not in ("load",)]
        okk = len(ss) == 1 and ss[0].op in ("store", "swap", "fetch_or")
        why = None
        if okk:
            once, w = exactly_once(cl, [ss[0].bb])
            okk = once and not [t for _, t in cl.calls() if t.get("f") is not None and F.inst[t["f"]].local]
            why = w
        ctx.check(okk, rid, "%s:one-store" % short, "the action performs exactly one atomic store on every path and nothing else", cl0.span,
                  why or [repr(s) for s in ss])
        if not okk:
            continue
        s = ss[0]
        tgt = capture_param(cl, agg, s.recv[0]) if s.recv else None
        ctx.check(tgt == 2, rid, "%s:target" % short, "the store goes to the atomic the caller passed in", s.sp, {"receiver": show(s.recv[0]) if s.recv else None, "captured_from_param": tgt})
        val = [deep_strip(e) for e in flow(cl).term_arg(s.bb, 1)]
        if want[0] == "const":
            okv = [fold(e) for e in val] == [want[1]]
            if not okv and len(val) == 1:
                # the constant may be captured (`register_store(signal, flag, true)`)
                path = upvar_path(cl, val[0])
                r = resolve_capture(agg, path) if path else None
                okv = r is not None and fold(r) == want[1]
        elif s.op == "fetch_or":
            okv = False      # fetch_or cannot install an arbitrary registered value
        else:
            okv = len(val) == 1 and capture_param(cl, agg, val[0]) == want[1]
        ctx.check(okv, rid, "%s:value" % short, "the stored value is %s" % ("the constant true" if want[0] == "const" else "the registered value"), s.sp,
                  [show(e) for e in val])
        names = s.orders[0] if s.orders else []
        ctx.check(names and all(n in ("Relaxed", "Release", "SeqCst", "AcqRel", "Acquire") for n in names) and
                  (s.op != "store" or all(n in ("Relaxed", "Release", "SeqCst") for n in names)), rid, "%s:ordering" % short,
                  "constant, store-valid ordering %s" % names, s.sp, names)
        _registered_for_param(ctx, rid, F, p0, p, parent)


def _registered_for_param(ctx, rid, F, p0, p, parent):
    regs = [(bb, t) for bb, t in p.calls() if t.get("f") is not None and F.inst[t["f"]].defp == "signal_hook_registry::register"]
    okk = len(regs) == 1 and [deep_strip(e) for e in flow(p).term_arg(regs[0][0], 0)] == [("param", 1)]
    ctx.check(okk, rid, "%s:registered-for-signal" % parent.split("::")[-1], "the action is registered for the caller's signal through the checked `register`",
              regs[0][1]["sp"] if regs else p0.span, [F.inst[t["f"]].name for _, t in regs])


def rule_b(ctx):
    F = ctx.F
    rid = "C15.b"
    ctx.rule(rid, "conditional shutdown: the terminating call is control-dependent on the true outcome of a load of the caller's condition made in "
                  "the same invocation, its argument is the registered status, and it is `_exit(status)` and nothing else; conditional default "
                  "likewise for the emulation of the registered signal", floor=8)
    # the exit primitive
    ex = F.one("signal_hook::low_level::exit")
    ctx.fn(ex)
    calls = [(bb, t) for bb, t in ex.calls()]
    okk = len(calls) == 1 and calls[0][1].get("f") is not None and F.inst[calls[0][1]["f"]].symbol == "_exit" and \
        [deep_strip(e) for e in flow(ex).term_arg(calls[0][0], 0)] == [("param", 1)]
    ctx.check(okk, rid, "exit-is-_exit", "low_level::exit calls libc::_exit with its own argument and nothing else (no atexit hooks)", ex.span,
              [(F.inst[t["f"]].symbol or F.inst[t["f"]].name) if t.get("f") is not None else "indirect" for _, t in calls])
    for parent, callee_def, arg_param, cond_param, what in (
            ("signal_hook::flag::register_conditional_shutdown", "signal_hook::low_level::exit", 2, 3, "exit"),
            ("signal_hook::flag::register_conditional_default", "signal_hook::low_level::signal_details::emulate_default_handler", 1, 2, "default emulation")):
        acts = [a for a in registered_actions(F, parent) if any(t.get("f") is not None and F.inst[t["f"]].defp == callee_def for _, t in a[1].calls())]
        if len(acts) != 1:
            raise AnchorLost("%s: action closure calling %s" % (parent, callee_def))
        cl0, cl, agg, p0, p, (rbb, rt) = acts[0]
        ctx.fn(cl0); ctx.fn(p0)
        short = parent.split("::")[-1]
        tc = [(bb, t) for bb, t in cl.calls() if t.get("f") is not None and F.inst[t["f"]].defp == callee_def]
        okk = len(tc) == 1
        ctx.check(okk, rid, "%s:one-call" % short, "one %s call site in the action" % what, cl0.span, len(tc))
        if not okk:
            continue
        bb, t = tc[0]
        a = [deep_strip(e) for e in flow(cl).term_arg(bb, 0)]
        ap = capture_param(cl, agg, a[0]) if len(a) == 1 else None
        ctx.check(ap == arg_param, rid, "%s:argument" % short,
                  "the argument is the registered %s" % ("status" if what == "exit" else "signal"), t["sp"], [show(e) for e in a])
        cond_ok = False; fresh = False
        for (ce, inf, sb) in facts_at(cl, bb):
            if ce[0] == "call" and re.search(r"Atomic::<bool>::load$", ce[3] or "") and truth(inf) is True:
                r = [deep_strip(x) for x in flow(cl).term_arg(ce[1], 0)]
                if r and capture_param(cl, agg, r[0]) == cond_param:
                    cond_ok = True
                fresh = True
        ctx.check(cond_ok and fresh, rid, "%s:iff-condition" % short, "the call happens only on the true branch of a fresh load of the caller's condition", t["sp"],
                  [(show(c), i) for c, i, _ in facts_at(cl, bb)])
        loads = [s for s in sites(F, cl) if s.op == "load"]
        okk2 = len(loads) == 1
        if okk2:
            sw = [b for b in range(cl.nblocks()) if cl.term(b)["k"] == "switch" and not cl.blocks[b].get("dead")]
            okk2 = len(sw) == 1
        ctx.check(okk2, rid, "%s:single-branch" % short, "one load, one branch: nothing else decides whether to %s" % what, cl0.span, None)
        others = [F.inst[t2["f"]].name for _, t2 in cl.calls() if t2.get("f") is not None and F.inst[t2["f"]].local and F.inst[t2["f"]].defp != callee_def]
        ctx.check(not others, rid, "%s:nothing-else" % short, "no other workspace call in the action", cl0.span, others)
        _registered_for_param(ctx, rid, F, p0, p, parent)
        if what != "exit":
            ctx.check(arg_param == 1, rid, "%s:same-signal" % short, "the emulated signal is the registered one", t["sp"], None)


def rule_c(ctx):
    """'shutdown registered first, arming flag second' rests on actions running in registration order — for every registration/removal
    history: the ordering rules of C02 reported under this property"""
    from .C02 import rule_b as order_b, rule_c as order_c
    from .C18 import _Alias
    ctx.rule("C15.c", "actions of one delivery run in registration order whatever was registered or removed before: ids grow with each registration, "
                      "the container is ordered by id, the dispatcher iterates it forwards (shared with C02.b / C02.c)", floor=8)
    order_b(_Alias(ctx, "C15.c"))
    order_c(_Alias(ctx, "C15.c"))


def run(ctx):
    ctx.guarded("C15.c", rule_c)
    ctx.guarded("C15.a", rule_a)
    ctx.guarded("C15.b", rule_b)
    ctx.note("order of actions within one delivery is C02.b/c; not decided: behaviour over arm/disarm histories (follows from the per-invocation rule), "
             "what _exit does in the kernel")
