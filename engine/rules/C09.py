"""C09 — signal iterators never lose a signal or a wake-up (ordering protocol)."""
import re
from .. import cfg
from ..conds import facts_at, truth
from ..effects import Cone
from ..facts import keyname, AnchorLost
from ..flow import flow, deps, deep_strip, strip, show, mentions, fold
from .util import call_sites, foreign, adt_constructions, exactly_once
from .iterc import insts, action_closures, pending_next, poll_signals, callback_calls, exf_of, BE

PENDING = "signal_hook::iterator::backend::Pending"


def store_calls(F, m):
    return [(bb, t) for bb, t in m.calls() if t.get("f") is not None and re.search(r"Exfiltrator>::store$", F.inst[t["f"]].name)]


_wake_prim = {}


def wake_calls(F, m):
    """calls through which m reaches the self-pipe wake primitive (virtual wake_readers, a wrapper, or the primitive itself)"""
    if id(F) not in _wake_prim:
        from .C13 import wake_fn
        _wake_prim[id(F)] = wake_fn(F).id
    prim = _wake_prim[id(F)]
    out = []
    for bb, t in m.calls():
        if t.get("f") is None:
            continue
        c = F.inst[t["f"]]
        if c.kind == "virtual" and "SelfPipeWrite" in (c.dyn or ""):
            # a method of the write-end trait object counts as a wake only if every implementation reaches the wake primitive (one byte
            # written) — `shutdown()`/EOF or any other signalling is not the wake-up the consumers' callbacks are written for
            tg = [tid for tid, _ in (c.impls or [])]
            if tg and all(tid == prim or prim in F.reach([F.inst[tid]]) for tid in tg):
                out.append((bb, t))
        elif c.id == prim or (c.local and prim in F.reach([c])):
            out.append((bb, t))
    return out


def load_calls(F, m):
    return [(bb, t) for bb, t in m.calls() if t.get("f") is not None and re.search(r"Exfiltrator>::load$", F.inst[t["f"]].name)]


def rule_a(ctx):
    F = ctx.F
    rid = "C09.a"
    ctx.rule(rid, "in every iterator action the slot store dominates the wake of the self-pipe, and the wake happens on every path (a woken "
                  "consumer finds the flag; every delivery wakes)", floor=6)
    from .nf import NF
    for m0 in action_closures(F):
        ctx.fn(m0)
        m = NF(F, m0)          # the body may live in a private method the closure forwards to
        st = store_calls(F, m); wk = wake_calls(F, m)
        key = "action<%s>" % exf_of(m0.name)
        dom = cfg.dominators(m)
        okk = len(st) >= 1 and len(wk) >= 1 and all(any(s in dom[w] and s != w for s, _ in st) for w, _ in wk)
        ctx.check(okk, rid, key + ":store-before-wake", "store into the slot dominates wake_readers", m0.span, {"stores": [t["sp"] for _, t in st], "wakes": [t["sp"] for _, t in wk]})
        r = cfg.reachable(m, 0, avoid={w for w, _ in wk}, unwind=False) & set(m.exits())
        ctx.check(not r and wk, rid, key + ":always-wakes", "every path of the action wakes the readers", m0.span, None)
        r2 = cfg.reachable(m, 0, avoid={s for s, _ in st}, unwind=False) & set(m.exits())
        ctx.check(not r2 and st, rid, key + ":always-stores", "every path of the action stores into the slot", m0.span, None)


def rule_b(ctx):
    F = ctx.F
    rid = "C09.b"
    ctx.rule(rid, "drain then scan: Exfiltrator::load is called only while scanning (Pending::next or a delegating load); the drain (recv) is "
                  "reachable from pending() only and nothing that can reach load precedes it there; Pending values are built only by the private "
                  "constructor with position 0, called only from pending(); in poll_signal the callback is asked only after next() returned None "
                  "and a freshly obtained batch is scanned before the callback is asked again", floor=12)
    nexts = pending_next(F)
    next_ids = {n.id for n in nexts}
    # b1: who calls load
    loads = [i for i in F.inst if i.local and i.body is not None and re.search(r"Exfiltrator>::load$", i.name)]
    if len(loads) < 3:
        raise AnchorLost("Exfiltrator::load impls")
    for l in loads:
        from .nf import boundary_callers
        direct = [c for (c, k, bb) in F.callers().get(l.id, []) if k == "call"]
        callers = [(F.inst[c], "call") for c in boundary_callers(F, direct)] if direct else []
        bad = [c.name for c, k in callers if c.id not in next_ids and not re.search(r"Exfiltrator>::load(::\{closure#\d+\})?$", c.name)
               and not any(c.name.startswith(n.name + "::{closure#") for n in nexts)]
        ctx.check(not bad, rid, "load-callers<%s>" % exf_of(l.name), "%s is called only from Pending::next or a delegating load" % l.name.split(" as ")[0][1:].split("::")[-1], l.span, bad)
    # b2: drain
    recv_users = [i for i in F.inst if i.local and i.body is not None and call_sites(F, i, foreign("recv")) and i.crate == "signal_hook"]
    if not recv_users:
        raise AnchorLost("drain primitive (recv)")
    flush_ids = {i.id for i in recv_users}
    for n in nexts:
        cone = Cone(F, [n])
        ctx.check(not (set(cone.parent) & flush_ids), rid, "scan-does-not-drain<%s>" % exf_of(n.name), "Pending::next never drains the pipe (a wake-up consumed after the scan started would be lost)",
                  n.span, None)
    pend_fns = insts(F, r"^signal_hook::iterator::backend::SignalDelivery::<.*>::pending$", "SignalDelivery::pending", 3)
    pend_ids = {p.id for p in pend_fns}
    from .nf import boundary_callers
    for fid in flush_ids:
        callers = {F.inst[c].defp for c in boundary_callers(F, [fid])}
        ctx.check(callers <= {"signal_hook::iterator::backend::SignalDelivery::<R, E>::pending"}, rid, "drain-callers@%s" % keyname(F.inst[fid].name),
                  "the drain is reached only from pending() (private helpers in between do not count)", F.inst[fid].span, sorted(callers))
    load_ids = {l.id for l in loads}
    for p in pend_fns:
        ctx.fn(p)
        drains = [bb for bb, t in p.calls() if t.get("f") in flush_ids or (t.get("f") is not None and set(F.reach([F.inst[t["f"]]])) & flush_ids)]
        dom = cfg.dominators(p)
        early = []
        for bb, t in p.calls():
            if t.get("f") is None or bb in drains:
                continue
            if any(d in dom[bb] for d in drains):
                continue
            if set(F.reach([F.inst[t["f"]]])) & (load_ids | next_ids):
                early.append(F.inst[t["f"]].name)
        ctx.check(bool(drains) is False or not early, rid, "pending<%s>:no-scan-before-drain" % exf_of(p.name), "inside pending() nothing that can reach load precedes the drain",
                  p.span, early)
        # a fresh batch is built in this call, after the drain (the constructor may be a private function or written out in place)
        from .nf import NF
        pn = NF(F, p)
        aggs = [(bb, si, rv) for (bb, si, rv) in adt_constructions(pn, PENDING) if not pn.blocks[bb].get("dead")]
        pdr = [bb for bb, t in pn.calls() if t.get("f") is not None and F.inst[t["f"]].kind == "foreign" and F.inst[t["f"]].symbol == "recv"]
        pdom = cfg.dominators(pn)
        fresh = len(aggs) >= 1
        ctx.check(fresh, rid, "pending<%s>:fresh-batch" % exf_of(p.name), "pending() returns a batch built in this call", p.span, len(aggs))
    # Pending values are built with position 0, and only on behalf of pending()
    from .nf import boundary_callers as _bc
    for i in F.inst:
        if i.body is None or not i.local:
            continue
        for (bb, si, rv) in adt_constructions(i, PENDING):
            owners = {F.inst[c].defp for c in _bc(F, [i.id])}
            in_new = owners <= {"signal_hook::iterator::backend::SignalDelivery::<R, E>::pending"}
            pos = rv["fields"].index("position") if "position" in rv["fields"] else None
            v = [fold(e) for e in flow(i).operand(rv["ops"][pos], (bb, si))] if pos is not None else None
            ctx.check(in_new and v == [0], rid, "pending-ctor<%s>" % exf_of(i.name), "a batch is built only on behalf of pending(), with position 0", rv.get("sp") or i.span,
                      {"in": i.name, "reached_from": sorted(owners), "position": v})
    # b3: poll_signal
    for m in poll_signals(F):
        ctx.fn(m)
        key = "poll_signal<%s>" % exf_of(m.name)
        nx = [bb for bb, t in m.calls() if t.get("f") in next_ids]
        cbs = callback_calls(F, m)
        if not nx or not cbs:
            # the callback may be consulted through a delegate (poll_pending): then the same facts are required at the delegating call
            from .iterc import delegating_calls
            cbs = cbs or [(bb, t) for (bb, t, c, ai) in delegating_calls(F, m)]
        for cb, ct in cbs:
            facts = facts_at(m, cb)
            after_none = any(ce[0] == "discr" and strip(ce[1])[0] == "call" and strip(ce[1])[1] in nx and (inf == ("eq", 0) or (inf[0] == "ne" and 1 in inf[1])) for (ce, inf, b) in facts)
            ctx.check(after_none, rid, key + ":callback-after-exhausted", "the readiness callback is asked only after the current batch yielded None in that iteration", ct["sp"],
                      [(show(c), i) for c, i, _ in facts][:6])
        # assignment of a fresh batch -> next() before the next callback
        # (the batch field is located by its type: the `Pending<E>` member of the iterator state)
        assigns = [bb for bb, bl in enumerate(m.blocks) for s in bl["s"] if s["k"] == "assign" and s["l"]["p"] and s["l"]["p"][-1]["k"] == "field"
                   and (s["l"]["p"][-1].get("t") or "").startswith(PENDING + "<") and not bl["cleanup"]]
        okk = bool(assigns)
        for a in assigns:
            r = cfg.reachable_after(m, a, avoid=set(nx), unwind=False) | ({a} if False else set())
            if r & {cb for cb, _ in cbs}:
                okk = False
        ctx.check(okk, rid, key + ":fresh-batch-scanned-first", "a newly obtained batch is scanned (next) before the callback is consulted again", m.span, None)


def rule_c(ctx):
    F = ctx.F
    rid = "C09.c"
    ctx.rule(rid, "Pending::next advances its position only on the branch where the slot reported None (a channel-backed slot is polled until empty)", floor=3)
    from .nf import NF
    for n0 in pending_next(F):
        ctx.fn(n0)
        n = NF(F, n0)
        key = "next<%s>" % exf_of(n0.name)
        lds = load_calls(F, n)
        fl_ = flow(n)

        def writes_position(bb, si, s):
            lp = s["l"]["p"]
            if not lp:
                return False
            if lp[-1]["k"] == "field" and lp[-1]["n"] == "position":
                return True
            if len(lp) == 1 and lp[0]["k"] == "deref":
                # `*position = ..` through a reference taken from the field (possibly captured by a closure)
                base = [deep_strip(e) for e in fl_.local(s["l"]["l"], (bb, si))]
                def is_pos_ref(e):
                    while e[0] in ("ref", "deref"):
                        e = deep_strip(e[1])
                    return e[0] == "field" and e[2] == "position"
                return bool(base) and all(is_pos_ref(e) for e in base)
            return False
        writes = [(bb, si, s) for bb, bl in enumerate(n.blocks) if not bl.get("dead") and not bl["cleanup"] for si, s in enumerate(bl["s"])
                  if s["k"] == "assign" and writes_position(bb, si, s)]
        okk = bool(writes) and bool(lds)
        why = []
        for (bb, si, s) in writes:
            facts = facts_at(n, bb)
            none = False
            for (ce, inf, b) in facts:
                if ce[0] == "call" and (ce[3] or "").endswith("Option::<T>::is_some") and truth(inf) is False and mentions_call_arg(n, ce, [l for l, _ in lds]):
                    none = True
                if ce[0] == "call" and (ce[3] or "").endswith("Option::<T>::is_none") and truth(inf) is True and mentions_call_arg(n, ce, [l for l, _ in lds]):
                    none = True
                if ce[0] == "discr" and strip(ce[1])[0] == "call" and strip(ce[1])[1] in [l for l, _ in lds] and (inf == ("eq", 0)):
                    none = True
            v = [deep_strip(e) for e in flow(n).rvalue(s["r"], (bb, si))]
            inc = all(e[0] == "binop" and e[1].startswith("Add") and fold(e[3]) == 1 for e in v)
            if not (none and inc):
                okk = False; why.append({"where": s["sp"], "on_none_branch": none, "plus_one": inc})
        ctx.check(okk, rid, key + ":advance-only-on-none", "position += 1 happens only when load() returned None for the current slot", n0.span, why)
        # the Some result is returned as is
        from ..flow import infeasible
        rets = [deep_strip(e) for rb in n.exits() for e in flow(n).place({"l": 0, "p": []}, (rb, len(n.stmts(rb))))]
        rets = [e for e in rets if not infeasible(e)]
        ldb = [l for l, _ in lds]

        def from_load(e):
            if e[0] == "call" and e[1] in ldb:
                return True
            if e[0] == "agg" and e[1][0] == "adt" and e[1][2] == "None":
                return True
            if e[0] == "agg" and e[1][0] == "adt" and e[1][2] == "Some" and len(e[2]) == 1:
                # Some(x) rebuilt from the payload of the load's Some
                x = deep_strip(e[2][0])
                return x[0] == "field" and deep_strip(x[1])[0] == "downcast" and deep_strip(x[1])[2] == "Some" and \
                    deep_strip(deep_strip(x[1])[1])[0] == "call" and deep_strip(deep_strip(x[1])[1])[1] in ldb
            return False
        okr = all(from_load(e) for e in rets)
        ctx.check(okr, rid, key + ":returns-load-result", "next returns the slot's report unchanged, or None at the end of the table", n0.span, [show(e) for e in rets])
        # the scan actually looks at the slots: while the cursor is inside the table (the out-of-range outcome of every comparison of the cursor
        # assumed away) a load is still reachable from entry — a negated loop condition ends every batch before its first slot
        from ..conds import switch_edges
        from .. import inline

        def is_pos(e):
            e = deep_strip(e)
            while e[0] in ("cast", "deref", "ref"):
                e = deep_strip(e[1])
            return e[0] == "field" and e[2] == "position"
        cut = set(); cmps = 0
        for (b2, tgt, lab, exprs, t2) in switch_edges(n):
            if n.blocks[b2].get("dead"):
                continue
            for e in exprs:
                e = deep_strip(e)
                if e[0] != "binop" or e[1] not in ("Lt", "Le", "Gt", "Ge", "Eq", "Ne"):
                    continue
                l_, r_ = is_pos(e[2]), is_pos(e[3])
                if l_ == r_:
                    continue
                op = e[1] if l_ else {"Lt": "Gt", "Gt": "Lt", "Le": "Ge", "Ge": "Le"}.get(e[1], e[1])      # as seen from the cursor
                in_range_when_true = op in ("Lt", "Le", "Ne")
                val = int(lab[3:]) if lab.startswith("sw:") else None
                is_true = (val is not None and val != 0) or (val is None and [v_ for v_, _ in t2["vals"]] == [0])
                cmps += 1
                if is_true != in_range_when_true:
                    cut.add((b2, tgt))
        if cut:
            n2 = inline.assuming(F, n, cut)
            live = cfg.reachable(n2, 0, unwind=False)
            still = [b for b, _ in load_calls(F, n2) if b in live and not n2.blocks[b].get("dead")]
            ctx.check(bool(still), rid, key + ":scans-inside-the-table", "with the cursor inside the table a slot load is reachable from entry", n0.span,
                      {"cursor_comparisons": cmps})


def mentions_call_arg(m, ce, call_bbs):
    for a in flow(m).term_arg(ce[1], 0):
        if mentions(a, lambda x: x[0] == "call" and x[1] in call_bbs):
            return True
    return False


def rule_d(ctx):
    """a delivery can run the action as soon as the registration call returns (even before add_signal returns): whatever the action needs
    — the lazily initialised slot — must be ready before the registration"""
    F = ctx.F
    rid = "C09.d"
    ctx.rule(rid, "the slot is initialised before the action is registered: every Exfiltrator::init call in add_signal dominates the registration "
                  "call (a delivery in between would be woken for but not stored)", floor=3)
    adds = insts(F, r"^<signal_hook::iterator::backend::PendingSignals<.*> as signal_hook::iterator::backend::AddSignal>::add_signal$", "PendingSignals::add_signal", 3)
    from .nf import NF
    for a0 in adds:
        ctx.fn(a0)
        a = NF(F, a0)
        regs = [bb for bb, t in a.calls() if (t.get("def") or "").startswith("signal_hook_registry::register")]
        inits = [(bb, t) for bb, t in a.calls() if (t.get("def") or "").endswith("Exfiltrator::init")]
        if not regs or not inits:
            raise AnchorLost("add_signal: init / registration calls")
        dom = cfg.dominators(a)
        okk = all(all(ib in dom[rb] and ib != rb for rb in regs) for ib, _ in inits)
        ctx.check(okk, rid, "add_signal<%s>:init-before-register" % exf_of(a0.name), "init(&slots[signal]) dominates register_sigaction(signal, action)", inits[0][1]["sp"],
                  {"init": [t["sp"] for _, t in inits], "register": [a.term(b)["sp"] for b in regs]})


def rule_e(ctx):
    """never parked as pending without an armed wake-up: the non-blocking poll reports Pending only when its readiness callback was consulted
    in that call and said 'nothing available' — the callback is what arms the waker (shared with C11.c)"""
    from .C11 import rule_c
    from .C18 import _Alias
    ctx.rule("C09.e", "poll_signal constructs PollResult::Pending only on the branch where the readiness callback answered Ok(false) in the same call; "
                      "adapters return Poll::Pending only from that arm (shared with C11.c)", floor=5)
    rule_c(_Alias(ctx, "C09.e"))


def run(ctx):
    ctx.guarded("C09.e", rule_e)
    ctx.guarded("C09.d", rule_d)
    ctx.guarded("C09.a", rule_a)
    ctx.guarded("C09.b", rule_b)
    ctx.guarded("C09.c", rule_c)
    ctx.note("not decided: the liveness theorem over all interleavings of deliveries and consumer steps; weak-memory outcomes of the flag vs the "
             "wake-up byte (ordered by program order around the send/recv system calls; no ordering minimum above Relaxed is armed)")
    ctx.assume("oracle/order_arguments.md O7: why 'store before wake' and 'drain before scan' are necessary conditions")
