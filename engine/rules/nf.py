"""General normal form for functions of the signal-hook crates: module-private helpers are transparent.

`NF(F, m)`: m's body with every call to a *private* workspace function of the same crate inlined (non-pub inherent functions and
methods, closures, and std combinators instantiated with workspace closures), constant branches folded and Result/Option joins
threaded. What stays visible as calls — the vocabulary rules are written in:
  * functions of other crates (the registry API seen from signal-hook, libc, std),
  * public functions and methods (API surface: `Channel::send`, `Handle::add_signal`, `pipe::register`, ...),
  * trait-impl methods (`Exfiltrator::store`, `AddSignal::add_signal`, `Drop::drop`, `Clone::clone`, ...).
"""
import re
from .. import inline

_pub = {}


def pub_paths(F):
    k = id(F)
    if k not in _pub:
        d = {}
        for c, fn in F.crate_items("fns"):
            d[fn["path"]] = fn
        _pub[k] = d
    return _pub[k]


# the domain vocabulary rules are written in: these workspace functions stay visible as calls in every normal form
DOMAIN_VOCAB = [
    r" as signal_hook::iterator::exfiltrator::sealed::Exfiltrator>::\w+$",
    r" as signal_hook::iterator::backend::AddSignal>::add_signal$",
    r" as signal_hook::iterator::backend::SelfPipeWrite>::\w+$",
    r"^signal_hook::low_level::channel::Channel::<.*>::(new|send|recv)$",
    r"^signal_hook::low_level::(exit|raise|abort)$",
    r"^signal_hook::low_level::signal_details::(emulate_default_handler|signal_name)$",
    r"^signal_hook::low_level::pipe::(wake|register|register_raw)(::<.*>)?$",
    r"^signal_hook::iterator::backend::Handle::(add_signal|close|is_closed)$",
    r"^signal_hook::iterator::backend::SignalDelivery::<.*>::(pending|poll_pending|handle|with_pipe|get_read|get_read_mut)(::<.*>)?$",
    r"^signal_hook::iterator::backend::SignalIterator::<.*>::(poll_signal|new|handle)(::<.*>)?$",
    r"^signal_hook::flag::(register|register_usize|register_conditional_shutdown|register_conditional_default)$",
]
_VOCAB_RE = re.compile("|".join("(?:%s)" % v for v in DOMAIN_VOCAB))


def keep_for(F, root, vocab=None, cross=False):
    """keep as calls: other crates' functions, impls of foreign traits (Drop, Clone, Deref, Iterator, ..), and the domain vocabulary;
    every other function of the root's own crate — private helpers, helper traits, closures — is inlined"""
    vre = re.compile("|".join("(?:%s)" % v for v in vocab)) if vocab else None

    def keep(c):
        if not c.local or c.kind == "closure":
            return False
        if c.crate != root.crate and not cross:
            return True
        if re.match(r"^<.* as (core|alloc|std)::", c.name):
            return True
        if _VOCAB_RE.search(c.name):
            return True
        if vre is not None and vre.search(c.name):
            return True
        return False
    return keep


def NF(F, m, vocab=None, tag="nf", cross=False):
    """cross=True: also inline across workspace crates (a registry closure wrapping a signal-hook action is one frame with it)"""
    return inline.cached(F, m, keep=keep_for(F, m, vocab, cross), tag=tag + ("|".join(vocab) if vocab else "") + ("+x" if cross else ""), hof=True, thread=True)


def boundary_callers(F, fids, limit=8):
    """the vocabulary-level functions through which the functions `fids` are reached: private helpers are replaced by their callers until
    only functions that stay visible in normal forms (or roots without callers) remain. returns {instance id}"""
    out = set(); seen = set()
    frontier = list(fids)
    callers = F.callers()
    for _ in range(limit):
        nxt = []
        for f in frontier:
            if f in seen:
                continue
            seen.add(f)
            fi = F.inst[f]
            if fi.kind == "closure" and fi.local:
                # a closure belongs to the function it is written in (it may be invoked from inside a std combinator)
                pname = fi.name.split("::{closure#")[0]
                ps = [p.id for p in F.inst if p.name == pname and p.body is not None]
                if ps:
                    nxt += ps; continue
            if not fi.local or keep_for(F, fi)(fi):
                out.add(f); continue
            cs = [c for (c, k, bb) in callers.get(f, []) if k == "call"]
            if not cs:
                out.add(f)
            nxt += cs
        frontier = nxt
        if not frontier:
            break
    return out
