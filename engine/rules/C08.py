"""C08 — channel operations never block or panic, even nested inside each other (structural part)."""
import re
from .. import cfg
from ..effects import Cone
from ..facts import keyname, AnchorLost
from ..flow import flow, deps, deep_strip, strip, show, mentions, fold, infeasible
from .C03 import rule_b as loops_rule, rule_c as panics_rule
from .chan import roles, method, word_calls, CH, CN, PN, is_take, is_give, primitives, SIGINFO
FORBIDDEN = {"ALLOC", "FREE", "LOCK", "WAIT", "ALLOCFREE_UNKNOWN", "SYSCALL", "UNCLASSIFIED", "SAFE_FFI_BLOCK", "SAFE_FFI", "TERM"}


def rule_a(ctx):
    F = ctx.F
    rid = "C08.a"
    ctx.rule(rid, "no LOCK/WAIT/ALLOC/FREE (nor any system call) leaf is reachable from Channel::{new, send, recv} for a payload without destructor", floor=3)
    ms = [method(F, n, SIGINFO) for n in ("new", "send", "recv")]
    cone = Cone(F, ms)
    for m in ms:
        ctx.fn(m)
    bad = cone.of_class(*FORBIDDEN)
    for m in ms:
        c = Cone(F, [m])
        b = c.of_class(*FORBIDDEN)
        ctx.check(not b, rid, "leaves:%s" % keyname(m.name).split("::")[-1], "%s reaches only atomics/intrinsics/panic entries (%d instances)" % (m.name.split("::")[-1], len(c.members)), m.span,
                  [{"leaf": i.name, "class": cl, "chain": c.chain_text(i.id)} for i, cl, n in b[:3]])
    return cone


def rule_b(ctx, cone):
    F = ctx.F
    loops_rule(ctx, cone=cone, rid="C08.b", floor=3)
    rid = "C08.b"
    send0 = method(F, "send", SIGINFO)
    send = CN(F, send0)
    # the "no free slot" outcome goes straight to return: no call on that branch
    words, cells = roles(F)
    takes = [(bb, t, c, w) for (bb, t, c, w) in word_calls(F, send, words) if is_take(c)]
    if len(takes) != 1:
        raise AnchorLost("send: take call")
    tb = takes[0][0]
    okk = False; calls = []
    for b in range(send.nblocks()):
        t = send.term(b)
        if t["k"] == "switch" and any(e[0] == "discr" and mentions(e, lambda x: x[0] == "call" and x[1] == tb) for e in [deep_strip(x) for x in flow(send).term_operand(b, t["d"])]):
            okk = True; some_exit = False
            for tg, lab in send.succ_labeled(b):
                if lab == "sw:1":
                    continue
                r = cfg.reachable(send, tg, unwind=False)
                if not (r & set(send.exits())):
                    continue        # `unreachable` arm of an exhaustive match
                some_exit = True
                cs = [send.term(x).get("def") for x in r if send.term(x)["k"] == "call"]
                calls += cs
                if cs or any(x in c for c in cfg.cycles(send) for x in r):
                    okk = False
            okk = okk and some_exit
    ctx.check(okk, rid, "send:full-drops", "when no slot is free, send goes straight to return (drops, never waits or retries)", send0.span, calls)


def rule_c(ctx, cone):
    F = ctx.F
    rid = "C08.c"
    ctx.rule(rid, "index conservation: new() gives each of 1..=SLOTS to the pre-filled word exactly once; the constants satisfy SLOTS*BITS <= 16, "
                  "MASK == (1<<BITS)-1, SLOTS < 1<<BITS, array length == SLOTS (the invariant the two `expect`s rely on; C07.a shows every "
                  "taken index is given back)", floor=6)
    S = F.const("signal_hook::low_level::channel::SLOTS")["val"]
    B = F.const("signal_hook::low_level::channel::BITS")["val"]
    M = F.const("signal_hook::low_level::channel::MASK")["val"]
    ctx.check(S * B <= 16, rid, "const:fits-u16", "SLOTS*BITS = %d <= 16" % (S * B), None, (S, B))
    ctx.check(M == (1 << B) - 1, rid, "const:mask", "MASK = %d == (1<<BITS)-1" % M, None, (M, B))
    ctx.check(0 < S < (1 << B), rid, "const:index-range", "SLOTS = %d < 1<<BITS = %d (every index 1..=SLOTS fits a lane and 0 means 'free')" % (S, 1 << B), None, (S, B))
    a = F.adt(CH)
    arr = [f["ty"] for f in a["variants"][0]["fields"] if f["ty"].startswith("[core::cell::UnsafeCell")]
    if not arr:
        adts_ = {x["path"]: x for c_, x in F.crate_items("adts")}
        for f in a["variants"][0]["fields"]:
            a2 = adts_.get(re.sub(r"<.*$", "", f["ty"]))
            if a2 and len(a2["variants"]) == 1:
                arr += [g["ty"] for g in a2["variants"][0]["fields"] if g["ty"].startswith("[core::cell::UnsafeCell")]
    ctx.check(bool(arr) and (arr[0].endswith("; %d]" % S) or "SLOTS" in arr[0]), rid, "const:array-len", "storage has SLOTS cells: %s" % arr, None, arr)
    new = method(F, "new", SIGINFO)
    words, cells = roles(F)
    def range_of(m, exprs):
        """find the Range / RangeInclusive aggregate an iterator expression derives from: (lo, hi_exclusive) or None"""
        st = [deep_strip(e) for e in exprs]
        seen = 0
        while st and seen < 60:
            e = st.pop(); seen += 1
            if e[0] == "agg" and e[1][0] == "adt" and e[1][1].endswith("ops::range::Range"):
                return fold(e[2][0]), fold(e[2][1])
            if e[0] == "agg" and e[1][0] == "adt" and e[1][1].endswith("ops::range::RangeInclusive"):
                hi = fold(e[2][1]); return fold(e[2][0]), (None if hi is None else hi + 1)
            if e[0] == "call" and (e[3] or "").endswith("RangeInclusive::<Idx>::new"):
                a = [fold(x) for k in range(2) for x in flow(m).term_arg(e[1], k)]
                return a[0], (None if a[1] is None else a[1] + 1)
            if e[0] == "call":
                for ai in range(len(m.term(e[1])["args"])):
                    st += [deep_strip(x) for x in flow(m).term_arg(e[1], ai)]
            elif e[0] in ("ref", "deref", "cast"):
                st.append(deep_strip(e[1]))
        return None
    new0 = new
    new = CN(F, new0)
    fills = [(bb, t, c, w) for (bb, t, c, w) in word_calls(F, new, words) if is_give(t)]
    okk = False
    detail = None
    if len(fills) == 1:
        bb, t, c, w = fills[0]
        comps = [x for x in cfg.cycles(new) if bb in x]
        if len(comps) == 1:
            nxt = [b for b in comps[0] if new.term(b)["k"] == "call" and (new.term(b).get("def") or "").endswith("Iterator::next")]
            if len(nxt) == 1:
                rg = range_of(new, flow(new).term_arg(nxt[0], 0))
                arg = [deep_strip(e) for e in flow(new).term_arg(bb, 1)]
                item = bool(arg) and all(mentions(e, lambda x: x[0] == "call" and x[1] == nxt[0]) for e in arg)
                okk = rg == (1, S + 1) and item
                detail = {"range": rg, "expected": (1, S + 1), "gives_loop_item": item}
    if not okk:
        # `(1..=SLOTS).for_each(|i| give(&me.empty, i))`: the give sits in a closure handed to a whole-range adapter (recognised on the
        # source-level frames: after inlining, the adapter's internals — two call sites for RangeInclusive — hide the idiom)
        from .util import exactly_once
        for cl in [i for i in F.inst if i.kind == "closure" and i.body is not None and i.name.startswith(new0.name + "::{closure#")]:
            cf = [(bb, t, c, w) for (bb, t, c, w) in word_calls(F, cl, words) if is_give(t)]
            if len(cf) != 1:
                continue
            arg = [deep_strip(e) for e in flow(cl).term_arg(cf[0][0], 1)]
            item = bool(arg) and all({x for x in deps(cl, [e], follow=lambda d: False) if x[0] in ("param", "call")} == {("param", 2)} for e in arg)
            once, why = exactly_once(cl, [cf[0][0]])
            for bb, t in new0.calls():
                if (t.get("def") or "").split("::")[-1] in ("for_each",) and any(deep_strip(e)[0] == "agg" and deep_strip(e)[1][0] == "closure" and deep_strip(e)[1][1] == cl.defp
                                                                              for ai in range(len(t["args"])) for e in flow(new0).term_arg(bb, ai)):
                    rg = range_of(new0, flow(new0).term_arg(bb, 0))
                    okk = rg == (1, S + 1) and item and once and not cfg.in_cycle(new0, bb)
                    detail = {"range": rg, "expected": (1, S + 1), "gives_item": item, "once_per_item": why}
    ctx.check(okk, rid, "new:fills-1..=SLOTS", "new() hands each index 1..=SLOTS to the pre-filled queue once (loop over Range{1, SLOTS+1})", new0.span, detail)
    # cell index = lane value - 1
    for nm in ("send", "recv"):
        m = method(F, nm, SIGINFO)
        bodies = [CN(F, m)]
        found = False
        for b in bodies:
            for bl in b.blocks:
                for s in bl["s"]:
                    if s["k"] == "assign" and s["r"]["k"] == "binop" and s["r"]["op"].startswith("Sub") and s["r"]["b"]["k"] == "const" and s["r"]["b"]["c"].get("val") == 1:
                        found = True
        ctx.check(found, rid, "%s:cell=index-1" % nm, "%s addresses cell (index - 1): indices 1..=SLOTS map onto cells 0..SLOTS-1" % nm, m.span, None)


def _snap_sources(m, exprs):
    """which snapshots of the queue word does a value depend on: the initial load and/or the value handed back by a failed CAS"""
    d = deps(m, exprs, follow=lambda x: "sync::atomic::Atomic::<" not in x and "sync::atomic::atomic_" not in x)
    out = set()
    for x in d:
        if x[0] == "call":
            df = m.term(x[1]).get("def") or ""
            if re.search(r"atomic::Atomic::<\w+>::(load|compare_exchange|compare_exchange_weak|swap|fetch_\w+)$", df) or \
                    re.search(r"atomic::atomic_(load|compare_exchange|compare_exchange_weak|swap|add|sub|and|or|xor)$", df):
                out.add((x[1], df.split("::")[-1].replace("atomic_", "")))
    return out


def rule_e(ctx):
    F = ctx.F
    rid = "C08.e"
    ctx.rule(rid, "CAS-loop coherence: in the take/give primitives the value returned (the taken index) and the new queue word are computed from "
                  "the very snapshot the successful compare_exchange compared against, on every iteration (no stale head after a retry)", floor=3)
    prims = primitives(F, SIGINFO)
    if len(prims) < 2:
        raise AnchorLost("take/give primitives of the channel")
    from ..atomics import sites
    for c0 in prims.values():
        ctx.fn(c0)
        c = PN(F, c0)
        fl = flow(c)
        cas = [s1 for s1 in sites(F, c) if s1.op.startswith("compare_exchange")]
        for s1 in cas:
            exp = _snap_sources(c, fl.term_arg(s1.bb, 1))
            new = _snap_sources(c, fl.term_arg(s1.bb, 2))
            nm = keyname(c.name).split("::")[-1]
            ctx.check(exp and exp <= new, rid, "%s:new-from-expected" % nm, "%s: the new queue word is computed from the snapshot used as the CAS's expected value" % nm, s1.sp,
                      {"expected_from": sorted(exp), "new_from": sorted(new)})
            # returned payload (take primitive)
            if is_take(c0):
                somes = [(bb, si, st) for bb, bl in enumerate(c.blocks) for si, st in enumerate(bl["s"]) if st["k"] == "assign" and st["r"]["k"] == "aggregate"
                         and st["r"].get("def") == "core::option::Option" and st["r"]["variant"] == "Some"]
                for (bb, si, st) in somes:
                    vex = [e for e in fl.operand(st["r"]["ops"][0], (bb, si)) if not infeasible(e)]
                    v = _snap_sources(c, vex)
                    # the Ok payload of the successful CAS *is* the snapshot it compared against
                    from_ok = bool(vex) and all(mentions(e, lambda x: x[0] == "downcast" and x[2] == "Ok" and deep_strip(x[1])[0] == "call" and deep_strip(x[1])[1] == s1.bb) and
                                                 not mentions(e, lambda x: x[0] == "downcast" and x[2] == "Err") and
                                                 {a for a in v} <= {(s1.bb, s1.op)} for e in vex)
                    # ... and that snapshot was found non-empty: each snapshot the CAS can compare against (the initial load, the value a
                    # failed CAS hands back) passes an emptiness test of *that* snapshot, on its non-empty side, on every path to the CAS (a
                    # test hoisted out of the retry loop lets `CAS(0 -> 0)` succeed and hands out index 0)
                    from ..conds import switch_edges
                    untested = []
                    for src in sorted(exp):
                        nonzero = set()
                        for (b2, tgt, lab, exprs, t2) in switch_edges(c):
                            for ce in exprs:
                                ce = deep_strip(ce)
                                val = int(lab[3:]) if lab.startswith("sw:") else None
                                is_true = (val is not None and val != 0) or (val is None and [v_ for v_, _ in t2["vals"]] == [0])
                                x = None
                                if ce[0] == "binop" and ce[1] in ("Eq", "Ne") and (fold(ce[3]) == 0 or fold(ce[2]) == 0):
                                    if (ce[1] == "Eq") != is_true:
                                        x = ce[2] if fold(ce[3]) == 0 else ce[3]
                                elif ce[0] == "binop" and ce[1] == "Gt" and fold(ce[3]) == 0 and is_true:
                                    x = ce[2]
                                elif ce[0] == "discr" and mentions(ce, lambda y: y[0] == "call" and y[3] and "NonZero" in y[3]) and (val == 1 or (val is None and 1 not in [v_ for v_, _ in t2["vals"]])):
                                    x = ce          # `NonZeroU16::new(v)` returned Some
                                elif ce[0] != "discr" and not (ce[0] == "binop" and ce[1] in ("Eq", "Ne", "Lt", "Le", "Gt", "Ge", "Cmp")) and ((val is not None and val != 0) or (val is None and 0 in [v_ for v_, _ in t2["vals"]])):
                                    x = ce
                                if x is not None and src in _snap_sources(c, [x]):
                                    nonzero.add((b2, tgt))
                        starts = c.succ(src[0], unwind=False)
                        r = set()
                        for st0 in starts:
                            r |= cfg.reachable_without_edges(c, st0, nonzero, unwind=False)
                        if s1.bb in r:
                            untested.append({"snapshot": src, "path": [c.term(x_)["sp"].split("/")[-1] for x_ in (cfg.path(c, starts[0], s1.bb, unwind=False) or [])][:8]})
                    ctx.check(bool(exp) and not untested, rid, "%s:taken-index-nonzero" % nm,
                              "%s: every snapshot the CAS can compare against was tested for emptiness (non-empty side) on the way to the CAS" % nm, st["sp"],
                              {"untested": untested})
                    ctx.check(v == exp or from_ok, rid, "%s:returned-from-expected" % nm, "%s: the returned index is read from the same snapshot the successful CAS replaced" % nm, st["sp"],
                              {"returned_from": sorted(v), "cas_expected_from": sorted(exp),
                               "why": "after a failed CAS the head may have been taken by a nested/concurrent operation; returning the old head hands one index to two owners"})


def rule_f(ctx):
    """index ownership (the anchor of the no-panic argument): an index is in exactly one of the empty queue, the full queue, or one in-flight
    operation — the slot-index typestate of C07.a, reported under this property too"""
    from .C07 import rule_a as typestate
    from .C18 import _Alias
    ctx.rule("C08.f", "index ownership: every cell access uses an index obtained by a successful take, nothing touches the cell after the index was "
                      "handed back, and the same index goes to the other queue on every path (shared with C07.a)", floor=7)
    typestate(_Alias(ctx, "C08.f"))


def run(ctx):
    from .. import fixtures
    ctx.guarded("C08.f", rule_f)
    ctx.guarded("C08.FX", lambda c: fixtures.run(c, ['effects', 'loops']))
    ctx.guarded("C08.e", rule_e)
    cone = ctx.guarded("C08.a", rule_a)
    if cone:
        ctx.guarded("C08.b", rule_b, cone)
        ctx.guarded("C08.c", rule_c, cone)
        ctx.guarded("C08.d", lambda c: panics_rule(c, cone=cone, rid="C08.d", floor=3, scope="channel"))
    ctx.note("not decided: that the bit arithmetic of get/set/enqueue/dequeue implements a contiguous queue (value-level), hence panic-freedom "
             "proper; the two `expect`s and the cell bounds check are audited entries resting on C07.a + C08.c")
