"""C18 — registry calls always terminate when overlapping deliveries terminate (structural part)."""
import re
from .. import cfg
from ..anchors import halflocks, handler, is_user_code
from ..atomics import sites, recv_field
from ..effects import Cone, classify, is_leaf
from ..facts import keyname, AnchorLost
from ..locks import lockinfo
from .lockrules import poison_rules, lock_order, lock_short
from .C01 import Roles, hl_methods, reads_slots, on_field, RG
from .util import adt_constructions, exactly_once


def rule_a(ctx):
    F = ctx.F
    edges, wit = lock_order(ctx, "C18.a", floor=4)
    L = lockinfo(F)
    # the fallback lock is only ever taken while the data lock is held
    data = [l for l in L.locks() if "HalfLock<signal_hook_registry::SignalData>" in l and l.endswith("write_mutex")]
    fb = [l for l in L.locks() if "HalfLock<core::option::Option<signal_hook_registry::Prev>>" in l and l.endswith("write_mutex")]
    if len(data) != 1 or len(fb) != 1:
        raise AnchorLost("data / fallback writer mutexes: %s %s" % (data, fb))
    n = 0
    for a in L.acqs:
        if a.lock != fb[0] or a.kind != "wrapper":
            continue
        n += 1
        reg = L.regions.get((a.inst.id, data[0]), set())
        ctx.check(a.bb in reg, "C18.a", "fallback-under-data@%s" % keyname(a.inst.name),
                  "the fallback writer lock is acquired only while the data writer lock is held", a.inst.term(a.bb)["sp"],
                  "fallback lock taken outside the data lock: two registrations could interleave their fallback stores")
    if n == 0:
        raise AnchorLost("no acquisition of the fallback writer lock found")
    ctx.check(fb[0] not in edges or data[0] not in edges.get(fb[0], ()), "C18.a", "no-inversion",
              "nothing acquires the data lock while holding the fallback lock", None, wit.get((fb[0], data[0])))


def rule_b(ctx):
    poison_rules(ctx, "C18.b", require_tolerant=lambda l: "write_mutex" in l or "HalfLock" in l, floor=3)


def rule_c(ctx):
    F = ctx.F
    rid = "C18.c"
    ctx.rule(rid, "readers never wait: the read path of the half lock has no loop and reaches no LOCK/WAIT leaf; the only wait loop of "
                  "the module is on the writer side and loads nothing but the reader slots", floor=4)
    R = Roles(F)
    for T in halflocks(F):
        readers = [m for m in hl_methods(F, T) if adt_constructions(m, RG)]
        for m in readers:
            ctx.fn(m)
            cy = cfg.cycles(m)
            cone = Cone(F, [m])
            bad = cone.of_class("LOCK", "WAIT", "UNCLASSIFIED")
            ctx.check(not cy and not bad, rid, "read-path:%s" % T.split("::")[-1], "read() has no loop and reaches no LOCK/WAIT leaf (%d instances)" % len(cone.members),
                      m.span, {"loops": [sorted(c) for c in cy], "leaves": [(i.name, c) for i, c, n in bad]})
        # wait loops: cycles containing a WAIT-class call
        for m in hl_methods(F, T):
            for comp in cfg.cycles(m):
                waits = []
                for b in comp:
                    t = m.term(b)
                    if t["k"] == "call" and t.get("f") is not None:
                        c = F.inst[t["f"]]
                        wc = Cone(F, [c]).of_class("WAIT")
                        if wc:
                            waits.append(b)
                if not waits:
                    continue
                ctx.fn(m)
                is_reader = bool(adt_constructions(m, RG))
                # atomic loads inside the loop (own frame + workspace callees called from the loop)
                loads = []
                for b in comp:
                    t = m.term(b)
                    if t["k"] == "call" and t.get("f") is not None:
                        c = F.inst[t["f"]]
                        if c.local and c.body is not None:
                            for s in sites(F, c):
                                loads.append((c, s))
                for s in sites(F, m):
                    if s.bb in comp:
                        loads.append((m, s))
                other = []
                for (fi, s) in loads:
                    whole, idx, lds = reads_slots(F, fi, R)
                    if s.op == "load" and s.aty == "usize" and (whole or idx) and not on_field(s, R.gen):
                        continue
                    other.append("%s %s in %s" % (s.op, s.aty, fi.name.split("::")[-1]))
                ctx.check(not is_reader and not other, rid, "wait-loop:%s@%s" % (T.split("::")[-1], keyname(m.name).split("::")[-1]),
                          "the wait loop is on the writer side and polls only the reader slots", m.term(min(comp))["sp"],
                          {"in_read_path": is_reader, "other_atomic_accesses_in_loop": other})


def rule_d(ctx):
    F = ctx.F
    rid = "C18.d"
    ctx.rule(rid, "guard pairing: each reader increment is matched by exactly one decrement of the same counter when the guard drops, and the "
                  "dispatcher drops its guards on every path (so the counters the barrier waits for return to zero)", floor=4)
    from .C01 import rule_b as c01b, rule_c as c01c, rule_g as c01g
    R = Roles(F)

    class Sub:
        pass
    # reuse C01's rule bodies under this rule id
    for T in halflocks(F):
        b = c01b(_Alias(ctx, rid), R, T)
        c01c(_Alias(ctx, rid), R, T, b[3] if b and len(b) > 3 else None)
    c01g(_Alias(ctx, rid))


class _Alias:
    """records obligations of a borrowed rule body under another rule id"""

    def __init__(self, ctx, rid):
        self._c = ctx; self._rid = rid; self.F = ctx.F

    def check(self, cond, rule, key, what, where=None, detail=None):
        return self._c.check(cond, self._rid, key, what, where, detail)

    def ok(self, rule, key, what, where=None, detail=None):
        return self._c.ok(self._rid, key, what, where, detail)

    def bad(self, rule, key, what, where=None, detail=None):
        return self._c.bad(self._rid, key, what, where, detail)

    def fn(self, i):
        self._c.fn(i)

    def rule(self, *a, **k):
        pass

    def __getattr__(self, n):
        return getattr(self._c, n)


def rule_e(ctx):
    F = ctx.F
    rid = "C18.e"
    ctx.rule(rid, "progress of the writer-side wait: every pass samples every reader slot (whole-array traversal, not under a short-circuiting "
                  "combinator), so a slot that was idle at some instant after the swap is eventually recorded", floor=4)
    from .C01 import rule_e as c01e, rule_b as c01b
    R = Roles(F)
    for T in halflocks(F):
        readers = [m for m in hl_methods(F, T) if adt_constructions(m, RG)]
        if len(readers) != 1:
            raise AnchorLost("read() of HalfLock<%s>" % T)
        c01e(_Alias(ctx, rid), R, T, readers[0])


def run(ctx):
    from .. import fixtures
    ctx.guarded("C18.FX", lambda c: fixtures.run(c, ['effects', 'loops']))
    ctx.guarded("C18.e", rule_e)
    ctx.guarded("C18.a", rule_a)
    ctx.guarded("C18.b", rule_b)
    ctx.guarded("C18.c", rule_c)
    ctx.guarded("C18.d", rule_d)
    ctx.note("not decided: termination of the barrier's own value-level logic (sticky seen_zero, 'all' vs 'any'); fairness of the OS scheduler")
    ctx.assume("deliveries in flight terminate (premise of the property); std Mutex/Once are deadlock-free for acyclic acquisition orders")
