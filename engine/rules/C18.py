"""C18 — registry calls always terminate when overlapping deliveries terminate (structural part)."""
import re
from .. import cfg
from ..anchors import handler, is_user_code
from ..atomics import sites, recv_field
from ..effects import Cone, classify, is_leaf
from ..facts import keyname, AnchorLost
from ..locks import lockinfo
from .lockrules import poison_rules, lock_order, lock_short
from . import hl
from .hl import Roles, on_field, RG
from .util import adt_constructions, exactly_once


def rule_a(ctx):
    F = ctx.F
    edges, wit = lock_order(ctx, "C18.a", floor=4)
    L = lockinfo(F)
    # the fallback lock is only ever taken while the data lock is held
    mx = "." + Roles(F).mutex[1]
    data = [l for l in L.locks() if "HalfLock<signal_hook_registry::SignalData>" in l and l.endswith(mx)]
    fb = [l for l in L.locks() if "HalfLock<core::option::Option<signal_hook_registry::Prev>>" in l and l.endswith(mx)]
    if len(data) != 1 or len(fb) != 1:
        raise AnchorLost("data / fallback writer mutexes: %s %s" % (data, fb))
    # judged in the normal form of every public registry function (the acquisition may sit in a private helper called with the data lock held)
    from . import reg
    n = 0
    for fn, i in reg.public_fns(F):
        nm = reg.RN(F, i)
        tk = L._tokens(nm, [])
        acq = [(bb, t) for bb, t in nm.calls() if L.wrappers.get(t.get("f")) == fb[0]]
        if not acq:
            continue
        locs = {l for l, lid in tk.items() if lid == data[0]}
        region = L._region(nm, locs) if locs else set()
        for bb, t in acq:
            n += 1
            ctx.check(bb in region, "C18.a", "fallback-under-data@%s" % keyname(i.name),
                      "the fallback writer lock is acquired only while the data writer lock is held", t["sp"],
                      "fallback lock taken outside the data lock: two registrations could interleave their fallback stores")
    if n == 0:
        raise AnchorLost("no acquisition of the fallback writer lock found")
    ctx.check(fb[0] not in edges or data[0] not in edges.get(fb[0], ()), "C18.a", "no-inversion",
              "nothing acquires the data lock while holding the fallback lock", None, wit.get((fb[0], data[0])))


def rule_b(ctx):
    poison_rules(ctx, "C18.b", require_tolerant=lambda l: "HalfLock" in l, floor=3)


def rule_c(ctx):
    F = ctx.F
    rid = "C18.c"
    ctx.rule(rid, "readers never wait: the read path of the half lock has no loop and reaches no LOCK/WAIT leaf; the only wait loop of "
                  "the module is on the writer side and loads nothing but the reader slots", floor=4)
    R = Roles(F)
    for T in hl.lock_types(F):
        hl.rule_wait_loops(ctx, rid, hl.View(F, R, T))


def rule_d(ctx):
    F = ctx.F
    rid = "C18.d"
    ctx.rule(rid, "guard pairing: each reader increment is matched by exactly one decrement of the same counter when the guard drops, and the "
                  "dispatcher drops its guards on every path (so the counters the barrier waits for return to zero)", floor=4)
    from .C01 import rule_g as c01g
    R = Roles(F)
    for T in hl.lock_types(F):
        V = hl.View(F, R, T)
        b = hl.rule_reader_order(ctx, rid, V)
        hl.rule_release(ctx, rid, V, b[4] if b else None)
        hl.rule_slots_start_zero(ctx, rid, V)
    c01g(_Alias(ctx, rid))


class _Alias:
    """records obligations of a borrowed rule body under another rule id"""

    def __init__(self, ctx, rid):
        self._c = ctx; self._rid = rid; self.F = ctx.F

    def check(self, cond, rule, key, what, where=None, detail=None):
        return self._c.check(cond, self._rid, key, what, where, detail)

    def ok(self, rule, key, what, where=None, detail=None):
        return self._c.ok(self._rid, key, what, where, detail)

    def bad(self, rule, key, what, where=None, detail=None):
        return self._c.bad(self._rid, key, what, where, detail)

    def fn(self, i):
        self._c.fn(i)

    def rule(self, *a, **k):
        pass

    def __getattr__(self, n):
        return getattr(self._c, n)


def rule_e(ctx):
    F = ctx.F
    rid = "C18.e"
    ctx.rule(rid, "progress of the writer-side wait: every pass samples every reader slot (whole-array traversal, not under a short-circuiting "
                  "combinator), so a slot that was idle at some instant after the swap is eventually recorded", floor=4)
    R = Roles(F)
    for T in hl.lock_types(F):
        hl.rule_covers_all(ctx, rid, hl.View(F, R, T))


def rule_f(ctx):
    F = ctx.F
    rid = "C18.f"
    ctx.rule(rid, "the generation flip sits between the first sampling of the reader slots and the wait loop of the swapping writer, once per publish; "
                  "no other entry point of the lock writes the generation", floor=4)
    R = Roles(F)
    for T in hl.lock_types(F):
        hl.rule_generation_flip(ctx, rid, hl.View(F, R, T))


def run(ctx):
    ctx.guarded("C18.f", rule_f)
    from .. import fixtures
    ctx.guarded("C18.FX", lambda c: fixtures.run(c, ['effects', 'loops']))
    ctx.guarded("C18.e", rule_e)
    ctx.guarded("C18.a", rule_a)
    ctx.guarded("C18.b", rule_b)
    ctx.guarded("C18.c", rule_c)
    ctx.guarded("C18.d", rule_d)
    ctx.note("not decided: termination of the barrier's own value-level logic (sticky seen_zero, 'all' vs 'any'); fairness of the OS scheduler")
    ctx.assume("deliveries in flight terminate (premise of the property); std Mutex/Once are deadlock-free for acyclic acquisition orders")
