"""Half-lock protocol rules (shared by C01 and C18), phrased on *normal forms*: every entry point of the lock (a method of
HalfLock<T> / its guards that is called from outside the lock module) with all workspace-local helpers inlined (engine.inline).
Extracting or merging private helpers, wrapping the bookkeeping in a helper type, renaming — none of that changes what these
rules see; moving an atomic operation relative to another one does."""
import re
from .. import cfg, inline
from ..atomics import sites, recv_field, at_least
from ..effects import Cone
from ..facts import keyname, AnchorLost
from ..flow import flow, deep_strip, mentions, fold, show
from .util import call_sites, exactly_once, adt_constructions

HL = "signal_hook_registry::half_lock::HalfLock"
RG = "signal_hook_registry::half_lock::ReadGuard"
WG = "signal_hook_registry::half_lock::WriteGuard"
MOD = "signal_hook_registry::half_lock::"


class Roles:
    """fields of the half lock located by type — in HalfLock itself or in a private struct of the module it embeds (a `ReaderSlots`
    holding the generation and the counters, say). A role is (owning type path, field name)."""

    def __init__(self, F):
        adts = {a["path"]: a for c, a in F.crate_items("adts")}
        found = {"ptr": [], "slots": [], "gen": [], "mutex": []}
        self.n = None

        def visit(path, depth=0):
            a = adts.get(path)
            if a is None or len(a["variants"]) != 1 or depth > 3:
                return
            for f in a["variants"][0]["fields"]:
                t = f["ty"]
                if re.match(r"^core::sync::atomic::Atomic<\*mut \w+>$", t):
                    found["ptr"].append((path, f["name"]))
                elif re.match(r"^\[core::sync::atomic::Atomic<usize>; [\w:]+\]$", t):
                    found["slots"].append((path, f["name"]))
                    ln = re.search(r"; ([\w:]+)\]", t).group(1)
                    if ln.isdigit():
                        self.n = int(ln)
                    else:
                        # the length is a named constant of the module (`[AtomicUsize; SLOTS]`): definition-level types keep the name
                        for cand in (ln, MOD + ln.split("::")[-1]):
                            try:
                                self.n = int(F.const(cand)["val"]); break
                            except Exception:
                                continue
                        if self.n is None:
                            raise AnchorLost("half lock: length of the reader-slot array (%s) is not a known constant" % ln)
                elif t == "core::sync::atomic::Atomic<usize>":
                    found["gen"].append((path, f["name"]))
                elif t.startswith("std::sync::poison::mutex::Mutex<"):
                    found["mutex"].append((path, f["name"]))
                else:
                    base = re.sub(r"<.*$", "", t)
                    if base.startswith(MOD) and base in adts and base != path:
                        visit(base, depth + 1)
        if HL not in adts:
            raise AnchorLost("type %s not found" % HL)
        visit(HL)
        for nm, k in (("snapshot pointer (AtomicPtr<T>)", "ptr"), ("reader slots ([AtomicUsize; N])", "slots"),
                      ("generation (AtomicUsize)", "gen"), ("writer mutex", "mutex")):
            if len(found[k]) != 1:
                raise AnchorLost("half lock: cannot identify the %s field by type: %s" % (nm, found[k]))
        self.ptr, self.slots, self.gen, self.mutex = found["ptr"][0], found["slots"][0], found["gen"][0], found["mutex"][0]


def lock_types(F):
    ts = set()
    for i in F.inst:
        m = re.match(r"^signal_hook_registry::half_lock::HalfLock::<(.*)>::\w+$", i.name)
        if m and i.local and i.body is not None:
            ts.add(m.group(1))
    if len(ts) < 2:
        raise AnchorLost("expected >= 2 instantiations of the half lock (data, fallback), found %s" % sorted(ts))
    return sorted(ts)


def methods(F, T):
    """workspace functions instantiated for HalfLock<T> / its guards (by self type)"""
    out = []
    for i in F.inst:
        if i.local and i.body is not None and i.crate == "signal_hook_registry" and i.kind == "item" and \
                ("half_lock::HalfLock::<%s>::" % T in i.name or "half_lock::WriteGuard::<'_, %s>::" % T in i.name or
                 "half_lock::ReadGuard::<'_, %s>::" % T in i.name or
                 re.match(r"^<signal_hook_registry::half_lock::(HalfLock|WriteGuard|ReadGuard)<('_, )?%s> as " % re.escape(T), i.name)):
            out.append(i)
    return out


def in_module(i):
    return i.name.startswith(MOD) or i.name.startswith("<" + MOD)


def roots(F, T):
    """entry points: methods with a caller outside the lock module, or with no direct caller at all (trait impls reached through
    drop glue / operators). Private helpers — every direct caller inside the module — are not roots: they are seen inlined."""
    callers = F.callers()
    # decided per method *definition*, over all instantiations of the lock: `write`/`store` are entry points of HalfLock<Option<Prev>> too
    # even if only a convenience method of the module calls them there
    ext = _root_defs.get(id(F))
    if ext is None:
        ext = set()
        for T2 in lock_types(F):
            for m in methods(F, T2):
                cs = [F.inst[c] for (c, k, bb) in callers.get(m.id, []) if k == "call" and c != m.id]
                if not cs or not all(in_module(c) for c in cs):
                    ext.add(m.defp)
        _root_defs[id(F)] = ext
    out = [m for m in methods(F, T) if m.defp in ext]
    if not out:
        raise AnchorLost("no entry points of HalfLock<%s>" % T)
    # composite entry points — convenience methods built from other entry points (`guard.update_with(|copy| ..)` = clone + closure +
    # `store`) — are not protocol primitives: callers see them inlined, and the primitives inside them are judged as such
    ids = {m.id for m in out}
    comp = set()
    for m in out:
        inl = set(inline.all_inlined(inline.cached(F, m, tag="full")))
        if inl & (ids - {m.id}):
            comp.add(m.id)
    _composite.setdefault(id(F), set()).update(comp)
    prim = [m for m in out if m.id not in comp]
    if not prim:
        raise AnchorLost("no primitive entry points of HalfLock<%s>" % T)
    return prim


_composite = {}
_root_defs = {}


def composite_ids(F):
    """entry points of the lock module that are built from other entry points (computed for every instantiation)"""
    if id(F) not in _composite:
        _composite[id(F)] = set()
        for T in lock_types(F):
            try:
                roots(F, T)
            except AnchorLost:
                pass
    return _composite[id(F)]


def N(F, m):
    return inline.cached(F, m, tag="full")


def src(F, nm, bb):
    """name of the source function a block of a normal form came from (for reports)"""
    return keyname(inline.origin_of(F, nm, bb).name).split("::")[-1]


def on_field(site, role):
    bt, f = recv_field(site)
    return f == role[1] and bt is not None and role[0] in bt


def closures_in(F, nm):
    """closure instances defined in the origin of a normal form or in any helper inlined into it"""
    names = [getattr(nm, "origin", nm).name] + [F.inst[c].name for c in inline.all_inlined(nm)]
    out = []
    for i in F.inst:
        if i.kind == "closure" and i.body is not None:
            for n in names:
                if i.name.startswith(n + "::{closure#"):
                    out.append(i); break
    return out


def slot_borrows(nm, R):
    """(whole, indices): how the body borrows the reader-slot array"""
    whole = False; idx = []
    fl = flow(nm)
    for bb, bl in enumerate(nm.blocks):
        if bl.get("dead"):
            continue
        for si, s in enumerate(bl["s"]):
            if s["k"] != "assign":
                continue
            r = s["r"]
            pl = r.get("p") if r["k"] in ("ref", "rawptr") else (r["o"].get("p") if r["k"] == "use" and r["o"].get("p") else None)
            if not pl:
                continue
            for n, p in enumerate(pl["p"]):
                if p["k"] == "field" and p["n"] == R.slots[1] and R.slots[0] in (p.get("bt") or ""):
                    rest = pl["p"][n + 1:]
                    if not rest:
                        whole = True
                    for q in rest:
                        if q["k"] == "cindex":
                            idx.append(q["i"])
                        elif q["k"] == "index":
                            vs = {fold(e) for e in fl.local(q["l"], (bb, si))}
                            if len(vs) == 1 and isinstance(list(vs)[0], int):
                                idx.append(list(vs)[0])          # `slots[0]`: an index local holding a constant
                            else:
                                idx.append(("var", q["l"]))
    return whole, idx


def slot_loads(F, nm, R):
    """usize loads in the body that are not on the generation counter (the reader-slot samples), plus those inside closures
    defined in the body: [(site, closure or None)]"""
    out = []
    for s in sites(F, nm):
        if s.op == "load" and s.aty == "usize" and not on_field(s, R.gen):
            out.append((s, None))
    for c in closures_in(F, nm):
        for s in sites(F, c):
            if s.op == "load" and s.aty == "usize":
                out.append((s, c))
    return out


def samples_slots(F, nm, R):
    whole, idx = slot_borrows(nm, R)
    return (whole or idx) and slot_loads(F, nm, R)


SHORT_CIRCUIT = ("all", "any", "find", "find_map", "position", "rposition", "try_for_each", "try_fold", "take_while", "skip_while", "map_while",
                 "scan", "is_sorted_by", "eq_by", "cmp_by")


def closure_uses(F, nm, c):
    """[(bb, term)] calls in nm that receive closure c as an argument"""
    out = []
    fl = flow(nm)
    for bb, t in nm.calls():
        for ai, a in enumerate(t["args"]):
            for e in fl.term_arg(bb, ai):
                e = deep_strip(e)
                if e[0] == "agg" and e[1][0] == "closure" and e[1][1] == c.defp:
                    out.append((bb, t))
    return out


def short_circuit_sampling(F, nm, R):
    out = []
    for (s, c) in slot_loads(F, nm, R):
        if c is None:
            continue
        for bb, t in closure_uses(F, nm, c):
            name = (t.get("def") or "").split("::")[-1]
            if name in SHORT_CIRCUIT:
                out.append((name, t["sp"]))
    return out


class View:
    """per lock type: entry points, their normal forms, and the protocol sites found in them"""

    def __init__(self, F, R, T):
        self.F = F; self.R = R; self.T = T
        self.roots = roots(F, T)
        self.n = {m.id: N(F, m) for m in self.roots}
        self.readers = [m for m in self.roots if adt_constructions(self.n[m.id], RG)]
        self.swappers = [m for m in self.roots if any(s.op == "swap" and on_field(s, R.ptr) for s in sites(F, self.n[m.id]))]

    def reader(self):
        if len(self.readers) != 1:
            raise AnchorLost("HalfLock<%s>: expected exactly one entry point constructing the read guard, found %s" % (self.T, [r.name for r in self.readers]))
        return self.readers[0], self.n[self.readers[0].id]

    def swapper(self):
        if len(self.swappers) != 1:
            raise AnchorLost("HalfLock<%s>: expected exactly one entry point swapping the snapshot pointer, found %s" % (self.T, [r.name for r in self.swappers]))
        m = self.swappers[0]; nm = self.n[m.id]
        sw = [s for s in sites(self.F, nm) if s.op == "swap" and on_field(s, self.R.ptr)]
        if len(sw) != 1:
            raise AnchorLost("HalfLock<%s>: expected exactly one swap of the snapshot pointer in %s, found %d" % (self.T, m.name, len(sw)))
        return m, nm, sw[0]


def sample_blocks(F, nm, R):
    """blocks of nm in which a reader slot is sampled: a direct load, or a call that receives a closure containing such a load"""
    out = set()
    for (s, c) in slot_loads(F, nm, R):
        if c is None:
            out.add(s.bb)
        else:
            for bb, t in closure_uses(F, nm, c):
                out.add(bb)
    return out


# ------------------------------------------------------------------------------------------------ rules
def rule_writer_order(ctx, rid, V):
    """C01.a: swap -> completed wait on the reader slots -> free"""
    F = ctx.F; R = V.R; T = V.T
    m, nm, s = V.swapper()
    ctx.fn(m)
    key = "writer-order:%s" % T
    fl = flow(nm)
    raws = call_sites(F, nm, lambda c: c.defp == "alloc::boxed::Box::<T>::from_raw")
    raws = [(bb, t, c) for (bb, t, c) in raws if any(mentions(e, lambda x: x[0] == "call" and x[1] == s.bb) for e in fl.term_arg(bb, 0))]
    if not raws:
        ctx.bad(rid, key, "the pointer returned by the swap never reaches Box::from_raw in %s (old snapshot leaked or freed elsewhere)" % m.name, s.sp)
        return None
    frees = []
    for (rb, rt, rc) in raws:
        mine = []
        for bb, bl in enumerate(nm.blocks):
            if bl["cleanup"]:
                continue
            t = bl["t"]
            if t["k"] == "drop" and "alloc::boxed::Box<" in t["ty"]:
                if any(mentions(e, lambda x: x[0] == "call" and x[1] == rb) for e in fl.term_place(bb, t["p"])):
                    mine.append((bb, t))
            if t["k"] == "call" and (t.get("def") or "") == "core::mem::drop" and t["args"]:
                if any(mentions(e, lambda x: x[0] == "call" and x[1] == rb) for e in fl.term_arg(bb, 0)):
                    mine.append((bb, t))
        if not mine:
            mine.append((rb, rt))      # dropped as a temporary at the from_raw site
        frees += mine
    samples = sample_blocks(F, nm, R)
    # a sampling *region*: the sample itself, or the loop it sits in (a `for` over the slot array can run zero times as far as the CFG
    # knows, so paths are required to pass through the loop, not through its body)
    region = set(samples)
    for comp in cfg.cycles(nm):
        if comp & samples:
            region |= comp
    for (fb, ft) in frees:
        okk, leak = cfg.every_path_passes(nm, s.bb, [fb], region)
        ctx.check(okk and samples, rid, key,
                  "old snapshot of HalfLock<%s> is freed only after the reader-slot sampling that follows the pointer swap" % T,
                  ft["sp"], {"swap": s.sp, "slot_samples": sorted({nm.term(b)["sp"] for b in samples}),
                             "path_without_sampling": cfg.path(nm, s.bb, fb, avoid=region) if not okk else None})
    return m, nm, s


def rule_reader_order(ctx, rid, V):
    """C01.b"""
    F = ctx.F; R = V.R; T = V.T
    m, nm = V.reader()
    ctx.fn(m)
    ss = sites(F, nm)
    inc = [s for s in ss if s.op == "fetch_add" and on_field(s, R.slots)]
    lds = [s for s in ss if s.op == "load" and on_field(s, R.ptr)]
    key = "reader-order:%s" % T
    if len(inc) != 1 or len(lds) != 1:
        ctx.bad(rid, key, "read(): expected one reader-count increment and one snapshot-pointer load, found %d / %d" % (len(inc), len(lds)), m.span,
                "loading the pointer twice (or not counting) breaks the reader protocol")
        return m, nm, inc, lds, None
    dom = cfg.dominators(nm)
    ctx.check(inc[0].bb in dom[lds[0].bb] and inc[0].bb != lds[0].bb, rid, key,
              "reader increments its slot counter before it loads the snapshot pointer (HalfLock<%s>)" % T, lds[0].sp,
              {"increment": inc[0].sp, "pointer_load": lds[0].sp, "problem": "the increment does not dominate the load"})
    amt = [fold(e) for e in flow(nm).term_arg(inc[0].bb, 1)]
    ctx.check(amt == [1], rid, "increment-by-one:%s" % T, "the reader counts itself once (increment by the constant 1, matching the guard's decrement)", inc[0].sp,
              {"amount": amt, "why": "an increment the guard's decrement does not undo leaves the counter above zero for ever: every later writer spins"})
    (abb, asi, rv) = adt_constructions(nm, RG)[0]
    fl = flow(nm)
    fields = rv["fields"]
    data_ok = slot_ok = False
    slot_field = None
    def find_slot(e, owner, fname, depth=0):
        """where in the (possibly nested) guard value does the incremented slot reference sit? -> (owning type, field name) or None"""
        e = deep_strip(e)
        if any(e == r for r in inc[0].recv):
            return (owner, fname)
        if e[0] == "agg" and e[1][0] == "adt" and depth < 3:
            a = None
            try:
                a = F.adt(e[1][1])
            except AnchorLost:
                a = None
            for k, sub in enumerate(e[2]):
                nm_ = a["variants"][0]["fields"][k]["name"] if a and k < len(a["variants"][0]["fields"]) else str(k)
                r_ = find_slot(sub, e[1][1], nm_, depth + 1)
                if r_:
                    return r_
        return None
    for fi, fname in enumerate(fields):
        ex = [deep_strip(e) for e in fl.operand(rv["ops"][fi], (abb, asi))]
        if ex and all(mentions(e, lambda x: x[0] == "call" and x[1] == lds[0].bb) for e in ex):
            data_ok = True
        locs = [find_slot(e, RG, fname) for e in ex]
        if ex and all(locs) and len(set(locs)) == 1:
            slot_ok = True; slot_field = locs[0]
    ctx.check(data_ok and slot_ok, rid, "guard-binding:%s" % T, "the guard is built from that very pointer and that very slot reference", rv.get("sp") or m.span,
              {"data_from_load": data_ok, "slot_is_incremented_one": slot_ok})
    return m, nm, inc, lds, slot_field


def guard_drop(F, T):
    """the destructor that releases a reader: the workspace Drop impl reached from the drop glue of ReadGuard<T> that touches an atomic —
    Drop for the guard itself, or for a private RAII member it holds"""
    glue = [i for i in F.inst if i.kind == "drop_glue" and (i.drop_ty or "") == "%s<'_, %s>" % (RG, T)]
    cands = []
    if glue:
        for x in F.reach(glue):
            xi = F.inst[x]
            if xi.local and xi.body is not None and re.match(r"^<.* as core::ops::drop::Drop>::drop$", xi.name) and in_module(xi) and sites(F, N(F, xi)):
                cands.append(xi)
    if len(cands) != 1:
        raise AnchorLost("the releasing destructor of ReadGuard<%s> (found %s)" % (T, [c.name for c in cands]))
    return cands[0], N(F, cands[0])


def rule_release(ctx, rid, V, slot_field):
    """C01.c"""
    F = ctx.F; T = V.T
    d, nd = guard_drop(F, T)
    ctx.fn(d)
    ss = sites(F, nd)
    dec = [s for s in ss if s.op == "fetch_sub"]
    okk = len(dec) == 1 and len(ss) == 1
    why = None
    if okk:
        e1, why1 = exactly_once(nd, [dec[0].bb])
        amt = [fold(e) for e in flow(nd).term_arg(dec[0].bb, 1)]
        bt, f = recv_field(dec[0])
        okk = e1 and amt == [1] and slot_field is not None and f == slot_field[1] and bt and slot_field[0] in bt
        why = {"once": why1, "amount": amt, "field": (bt, f), "expected_field": slot_field}
    ctx.check(okk, rid, "release:%s" % T, "dropping the guard decrements exactly once, by 1, the counter reference stored at construction", d.span,
              why or {"atomic_ops_in_drop": [repr(s) for s in ss]})
    others = [i.name for i in F.inst if i.local and i.body is not None and adt_constructions(i, RG) and not in_module(i)]
    ctx.check(not others, rid, "guard:single-constructor", "read guards are constructed only by the half lock itself", None, others)
    return dec


def rule_orderings(ctx, rid, V, inc, lds, swap_site, dec):
    """C01.d"""
    F = ctx.F; R = V.R; T = V.T

    def chk(site, minimum, role, what):
        names = site.orders[0] if site.orders else []
        ctx.check(at_least(names, minimum, role), rid, "ordering:%s:%s" % (what, T),
                  "%s is %s (minimum %s; store-buffering pair, see oracle/ordering_minima.md)" % (what, "/".join(names), minimum), site.sp,
                  {"declared": names, "minimum": minimum})
    if inc:
        chk(inc[0], "SeqCst", "rmw", "reader slot fetch_add")
    if lds:
        chk(lds[0], "SeqCst", "load", "reader snapshot-pointer load")
    chk(swap_site, "SeqCst", "rmw", "writer snapshot-pointer swap")
    if dec:
        chk(dec[0], "Release", "rmw", "guard release fetch_sub")
    n = 0
    rd = {r.id for r in V.readers}
    for m in V.roots:
        if m.id in rd:
            continue
        nm = V.n[m.id]
        if not samples_slots(F, nm, R):
            continue
        for (s, c) in slot_loads(F, nm, R):
            n += 1
            chk(s, "SeqCst", "load", "writer reader-slot load")
    if n == 0:
        raise AnchorLost("no writer-side load of the reader slots found for HalfLock<%s>" % T)
    for m in V.roots:
        nm = V.n[m.id]
        for s in sites(F, nm):
            if on_field(s, R.gen) or (s.op == "load" and on_field(s, R.ptr) and m.id not in rd):
                names = s.orders[0] if s.orders else []
                ctx.check(names and not any(x.startswith("?") for x in names), rid, "ordering:aux:%s:%s:%s" % (s.op, recv_field(s)[1], T),
                          "auxiliary access (%s) has a constant ordering %s (minimum Relaxed)" % (s.op, names), s.sp, names)


def rule_covers_all(ctx, rid, V):
    """C01.e / C18.e"""
    F = ctx.F; R = V.R; T = V.T
    m, nm, s = V.swapper()
    if not samples_slots(F, nm, R):
        raise AnchorLost("the swapping writer of HalfLock<%s> never samples the reader slots" % T)
    whole, idx = slot_borrows(nm, R)
    const_idx = sorted({i for i in idx if isinstance(i, int)})
    okk = whole or const_idx == list(range(R.n))
    ctx.check(okk, rid, "barrier-covers-all:%s" % T, "the writer-side wait reads the whole reader-slot array (all %d slots)" % R.n, m.span,
              {"whole_array_borrow": whole, "indices": [str(i) for i in idx], "problem": "only some reader slots are waited for"})
    sc = short_circuit_sampling(F, nm, R)
    ctx.check(not sc, rid, "every-slot-every-pass:%s" % T, "every pass samples every reader slot (the loads are not under a short-circuiting iterator combinator)", m.span,
              {"short_circuiting": sc, "why": "a slot that is skipped while another one is busy can never be recorded as idle; with overlapping deliveries the writer then spins forever"})


def rule_sample_after_swap(ctx, rid, V):
    """C01.h: in the swapping writer, no reader slot is sampled before the swap (a zero seen earlier proves nothing)"""
    F = ctx.F; R = V.R; T = V.T
    m, nm, s = V.swapper()
    dom = cfg.dominators(nm)
    blocks = sample_blocks(F, nm, R)
    if not blocks:
        raise AnchorLost("no writer-side sampling of the reader slots for HalfLock<%s>" % T)
    early = [b for b in blocks if not (s.bb in dom[b] and s.bb != b)]
    ctx.check(not early, rid, "sample-after-swap:%s" % T.split("::")[-1],
              "the swapping writer samples the reader slots only after the pointer swap", m.span,
              {"samples_not_dominated_by_the_swap": [nm.term(b)["sp"] for b in early],
               "why": "a slot seen idle before the swap proves nothing: a reader may enter afterwards and still load the old pointer"})
    # no other entry point of the lock samples the reader slots (an observation made in `write()` and carried to `store()` in the guard
    # predates the swap just the same)
    for r in V.roots:
        if r.id == m.id:
            continue
        nr = V.n[r.id]
        sb = sample_blocks(F, nr, R) if slot_borrows(nr, R) != (False, []) else set()
        ctx.check(not sb, rid, "no-sampling-outside-store:%s@%s" % (T.split("::")[-1], keyname(r.name).split("::")[-1]),
                  "%s does not sample the reader slots (only the swapping writer does, after its swap)" % keyname(r.name).split("::")[-1], r.span,
                  {"samples": [nr.term(b)["sp"] for b in sorted(sb)]})


def rule_wait_loops(ctx, rid, V):
    """C18.c"""
    F = ctx.F; R = V.R; T = V.T
    m, nm = V.reader()
    ctx.fn(m)
    cy = cfg.cycles(nm)
    cone = Cone(F, [m])
    bad = cone.of_class("LOCK", "WAIT", "UNCLASSIFIED")
    ctx.check(not cy and not bad, rid, "read-path:%s" % T.split("::")[-1], "read() has no loop and reaches no LOCK/WAIT leaf (%d instances)" % len(cone.members),
              m.span, {"loops": [sorted(c) for c in cy], "leaves": [(i.name, c) for i, c, n in bad]})
    rd = {r.id for r in V.readers}
    for r in V.roots:
        nr = V.n[r.id]
        ss = sites(F, nr)
        for comp in cfg.cycles(nr):
            waits = []
            for b in comp:
                t = nr.term(b)
                if t["k"] == "call" and t.get("f") is not None:
                    c = F.inst[t["f"]]
                    if Cone(F, [c]).of_class("WAIT"):
                        waits.append(b)
            if not waits:
                continue
            ctx.fn(r)
            other = []
            for s in ss:
                if s.bb not in comp:
                    continue
                if s.op == "load" and s.aty == "usize" and not on_field(s, R.gen):
                    continue
                other.append("%s %s (%s)" % (s.op, s.aty, s.sp.split("/")[-1]))
            polls = bool(sample_blocks(F, nr, R) & set(comp))
            ctx.check(r.id not in rd and not other and polls, rid, "wait-loop:%s@%s" % (T.split("::")[-1], keyname(r.name).split("::")[-1]),
                      "the wait loop is on the writer side, samples the reader slots on every round and polls nothing else", nr.term(min(comp))["sp"],
                      {"in_read_path": r.id in rd, "other_atomic_accesses_in_loop": other, "samples_slots_inside_the_loop": polls})


def rule_generation_flip(ctx, rid, V):
    """C18.f: the generation flip is what lets the old reader slot drain while new readers go to the other one; it only works in its place —
    after the pointer swap and after a first look at the slots (the idle one is recorded before readers are diverted into it), once per
    publish, and nowhere else"""
    F = ctx.F; R = V.R; T = V.T
    m, nm, s = V.swapper()
    dom = cfg.dominators(nm)
    flips = [x for x in sites(F, nm) if on_field(x, R.gen) and x.op not in ("load",)]
    key = T.split("::")[-1]
    samples = sample_blocks(F, nm, R)
    region = set(samples)
    for comp in cfg.cycles(nm):
        if comp & samples:
            region |= comp
    okk = len(flips) == 1
    why = {"generation_writes_in_store": [x.sp for x in flips]}
    if okk and flips[0].op in ("fetch_add", "fetch_sub", "fetch_xor"):
        amt = [fold(e) for e in flow(nm).term_arg(flips[0].bb, 1)]
        odd = bool(amt) and all(isinstance(a, int) and a % 2 == 1 for a in amt)
        ctx.check(odd, rid, "flip-amount:%s" % key, "the generation changes by an odd constant (so `generation %% %d` really switches slots)" % R.n, flips[0].sp, amt)
    if okk:
        fb = flips[0].bb
        after_swap = s.bb in dom[fb] and s.bb != fb
        # some sampling region lies between the swap and the flip on every path
        sampled_first, _ = cfg.every_path_passes(nm, s.bb, [fb], region - {fb})
        in_loop = cfg.in_cycle(nm, fb)
        okk = after_swap and sampled_first and not in_loop
        why.update({"after_swap": after_swap, "slots_sampled_before_flip": sampled_first, "flip_inside_loop": in_loop})
    ctx.check(okk, rid, "flip-in-place:%s" % key, "the swapping writer flips the generation exactly once, after the swap and after a first sampling of the reader slots, outside the wait loop",
              flips[0].sp if flips else m.span, why)
    for r in V.roots:
        if r.id == m.id:
            continue
        nr = V.n[r.id]
        w = [x for x in sites(F, nr) if on_field(x, R.gen) and x.op not in ("load",)]
        ctx.check(not w, rid, "no-flip-outside-store:%s@%s" % (key, keyname(r.name).split("::")[-1]), "%s does not modify the generation" % keyname(r.name).split("::")[-1], r.span,
                  {"writes": [x.sp for x in w], "why": "readers diverted before the idle slot was recorded fill it again; with overlapping deliveries it is never seen empty and the writer spins forever"})


def rule_seen_flags(ctx, rid, V):
    """the bookkeeping of the wait starts from "nothing seen": every bool array (or bool) that the swapping writer initialises with
    constants and then lends out mutably — the per-slot "seen idle" flags — starts all-false. (Flags that start true end the wait before
    any slot was looked at.)"""
    F = ctx.F; T = V.T
    m, nm, s = V.swapper()
    fl = flow(nm)
    mutb = set()
    for bl in nm.blocks:
        for st in bl["s"]:
            if st["k"] == "assign" and st["r"]["k"] in ("ref", "rawptr") and st["r"].get("m") not in ("shared", "Const", "const") \
                    and not any(p["k"] == "deref" for p in st["r"]["p"]["p"]):
                mutb.add(st["r"]["p"]["l"])
    n = 0; bad = []
    for bb, bl in enumerate(nm.blocks):
        if bl.get("dead") or bl.get("cleanup"):
            continue
        for si, st in enumerate(bl["s"]):
            if st["k"] != "assign" or st["l"]["p"] or st["l"]["l"] not in mutb:
                continue
            ty = nm.local_ty(st["l"]["l"])
            if not re.match(r"^\[bool; \d+\]$", ty) and not (ty.startswith(MOD) and "bool" in str(_adt_field_types(F, ty))):
                continue
            r = st["r"]
            vals = None
            if r["k"] == "repeat":
                vals = [fold(e) for e in fl.operand(r["o"], (bb, si))]
            elif r["k"] == "aggregate":
                vals = []
                for o in r["ops"]:
                    for e in fl.operand(o, (bb, si)):
                        e = deep_strip(e)
                        if e[0] == "repeat":
                            vals.append(fold(e[1]))
                        elif e[0] == "agg":
                            vals += [fold(x) for x in e[2]]
                        else:
                            vals.append(fold(e))
            if vals is None:
                continue
            n += 1
            if not vals or any(v != 0 for v in vals):
                bad.append({"where": st["sp"], "initial": vals})
    ctx.check(not bad, rid, "seen-flags-start-false:%s" % T.split("::")[-1],
              "the 'slot seen idle' flags of the wait start false (%d initialisation site(s) in the swapping writer)" % n, m.span, bad)


def _adt_field_types(F, ty):
    try:
        a = F.adt(re.sub(r"<.*$", "", ty))
        return [f["ty"] for v in a["variants"] for f in v["fields"]]
    except AnchorLost:
        return []


def swap_frees(F, nm, s):
    """blocks of nm in which the box made from the pointer returned by the swap `s` is freed: [(bb, terminator)]"""
    fl = flow(nm)
    raws = call_sites(F, nm, lambda c: c.defp == "alloc::boxed::Box::<T>::from_raw")
    raws = [(bb, t, c) for (bb, t, c) in raws if any(mentions(e, lambda x: x[0] == "call" and x[1] == s.bb) for e in fl.term_arg(bb, 0))]
    frees = []
    for (rb, rt, rc) in raws:
        mine = []
        for bb, bl in enumerate(nm.blocks):
            if bl["cleanup"] or bl.get("dead"):
                continue
            t = bl["t"]
            if t["k"] == "drop" and "alloc::boxed::Box<" in t["ty"]:
                if any(mentions(e, lambda x: x[0] == "call" and x[1] == rb) for e in fl.term_place(bb, t["p"])):
                    mine.append((bb, t))
            if t["k"] == "call" and (t.get("def") or "") == "core::mem::drop" and t["args"]:
                if any(mentions(e, lambda x: x[0] == "call" and x[1] == rb) for e in fl.term_arg(bb, 0)):
                    mine.append((bb, t))
        if not mine:
            mine.append((rb, rt))
        frees += mine
    return frees


def _flag_read(nm, fl, flagged, local, at, depth=0):
    """is `local` at `at` a bool read from the wait's bookkeeping storage (through a pointer, or an element/field of a flagged local)?
    returns +1 (the flag itself), -1 (its negation) or None"""
    if depth > 4 or nm.local_ty(local) != "bool":
        return None
    pol = set()
    for site in fl.reaching(local, at):
        if site[0] == "entry":
            return None
        sb, si = site
        bl = nm.blocks[sb]
        if si >= len(bl["s"]):
            return None
        st = bl["s"][si]
        if st["k"] != "assign" or st["l"]["p"]:
            return None
        r = st["r"]
        if r["k"] == "use" and r["o"]["k"] in ("copy", "move"):
            pl = r["o"]["p"]
            if any(p["k"] == "deref" for p in pl["p"]) or (pl["p"] and pl["l"] in flagged):
                pol.add(1)
            elif not pl["p"]:
                x = _flag_read(nm, fl, flagged, pl["l"], (sb, si), depth + 1)
                if x is None:
                    return None
                pol.add(x)
            else:
                return None
        elif r["k"] == "unop" and r.get("op") == "Not" and r["a"]["k"] in ("copy", "move") and not r["a"]["p"]["p"]:
            x = _flag_read(nm, fl, flagged, r["a"]["p"]["l"], (sb, si), depth + 1)
            if x is None:
                return None
            pol.add(-x)
        else:
            return None
    return pol.pop() if len(pol) == 1 else None


def rule_exit_needs_all(ctx, rid, V):
    """a slot flag found *false* sends the writer back to sampling: from the false outcome of every test of a "seen idle" flag, the free of
    the old snapshot is not reachable within the same round of the wait (without entering the wait loop's head again or sampling a slot).
    `while !seen.all()` has this shape, `while !seen.any()` (leave as soon as one slot was idle) does not. Paths through a branch on a
    variable that merges several values are not used as witnesses (path-insensitive merge: no verdict from them)."""
    F = ctx.F; R = V.R; T = V.T
    m, nm0, s0 = V.swapper()
    nm = inline.cached(F, m, tag="full-hof", hof=True, thread=True)
    sw = [x for x in sites(F, nm) if x.op == "swap" and on_field(x, R.ptr)]
    if len(sw) != 1:
        raise AnchorLost("HalfLock<%s>: the swap of the snapshot pointer in the normal form with combinators opened" % T)
    s = sw[0]
    frees = {bb for bb, t in swap_frees(F, nm, s)}
    samples = sample_blocks(F, nm, R)
    for (sl, c) in slot_loads(F, nm, R):
        samples.add(sl.bb)
    if not frees or not samples:
        raise AnchorLost("HalfLock<%s>: free of the old snapshot / sampling of the reader slots in the normal form with combinators opened" % T)
    preds = nm.preds(unwind=False)
    heads = set()
    for comp in cfg.cycles(nm, unwind=False):
        if comp & samples:
            heads |= {b for b in comp if any(p not in comp for p in preds[b])}
    fl = flow(nm)
    flagged = set()
    for bl in nm.blocks:
        for st in bl["s"]:
            if st["k"] == "assign" and st["r"]["k"] in ("ref", "rawptr") and st["r"].get("m") not in ("shared", "Const", "const") \
                    and not any(p["k"] == "deref" for p in st["r"]["p"]["p"]):
                ty = nm.local_ty(st["r"]["p"]["l"])
                if re.match(r"^\[bool; \d+\]$", ty) or (ty.startswith(MOD) and "bool" in str(_adt_field_types(F, ty))):
                    flagged.add(st["r"]["p"]["l"])
    after = cfg.reachable_after(nm, s.bb, unwind=False)
    tests = []; merges = set()
    for b in sorted(after):
        bl = nm.blocks[b]
        t = bl["t"]
        if t["k"] != "switch" or bl.get("dead") or bl.get("cleanup"):
            continue
        d = t["d"]
        if d.get("k") not in ("copy", "move") or d["p"]["p"]:
            continue
        at = (b, len(bl["s"]))
        pol = _flag_read(nm, fl, flagged, d["p"]["l"], at)
        if pol is not None:
            zero = [tg for v, tg in t["vals"] if v == 0]
            ft = (zero[0] if zero else None) if pol == 1 else (t["else"] if zero else None)
            if ft is not None:
                tests.append((b, ft))
            continue
        # a merge of several values decided here: no witness may run through it
        loc = d["p"]["l"]
        srcs = set(fl.reaching(loc, at))
        for _ in range(6):
            if len(srcs) != 1:
                break
            site = next(iter(srcs))
            if site[0] == "entry" or site[1] >= len(nm.blocks[site[0]]["s"]):
                break
            st = nm.blocks[site[0]]["s"][site[1]]
            if st["k"] != "assign":
                break
            r_ = st["r"]
            if r_["k"] == "discr" and not r_["p"]["p"]:
                srcs = set(fl.reaching(r_["p"]["l"], site))
            elif r_["k"] == "use" and r_["o"]["k"] in ("copy", "move") and not r_["o"]["p"]["p"]:
                srcs = set(fl.reaching(r_["o"]["p"]["l"], site))
            elif r_["k"] == "unop" and r_["a"]["k"] in ("copy", "move") and not r_["a"]["p"]["p"]:
                srcs = set(fl.reaching(r_["a"]["p"]["l"], site))
            else:
                break
        if len(srcs) > 1:
            merges.add(b)
    bad = []
    for (b, ft) in tests:
        avoid = heads | samples | merges
        if ft in avoid:
            continue
        r = cfg.reachable(nm, ft, avoid=avoid, unwind=False)
        hit = sorted(r & frees)
        if hit:
            bad.append({"flag_test": nm.term(b)["sp"], "free": nm.term(hit[0])["sp"],
                        "path": [nm.term(x)["sp"].split("/")[-1] for x in (cfg.path(nm, ft, hit[0], avoid=avoid, unwind=False) or [])][:12]})
    ctx.check(not bad, rid, "idle-flag-false-keeps-waiting:%s" % T.split("::")[-1],
              "a reader slot not yet seen idle keeps the writer waiting: from the false outcome of each of the %d test(s) of a seen-idle flag the old "
              "snapshot's free is out of reach until the slots are sampled again" % len(tests), m.span, bad)


def rule_slots_start_zero(ctx, rid, V):
    """the reader counters start at zero (a lock constructed with a non-zero counter can never be written to: the barrier waits for a reader
    that does not exist)"""
    F = ctx.F; R = V.R; T = V.T
    n_sites = 0; bad = []
    for r in V.roots:
        nr = V.n[r.id]
        fl = flow(nr)
        for bb, bl in enumerate(nr.blocks):
            if bl.get("dead") or bl.get("cleanup"):
                continue
            for si, st in enumerate(bl["s"]):
                if st["k"] != "assign" or st["l"]["p"] or not re.match(r"^\[core::sync::atomic::Atomic<usize>; \d+\]$", nr.local_ty(st["l"]["l"])):
                    continue
                rr = st["r"]
                ops = rr.get("ops") if rr["k"] == "aggregate" else ([rr["o"]] if rr["k"] == "repeat" else None)
                if ops is None:
                    continue
                n_sites += 1
                for o in ops:
                    for e in fl.operand(o, (bb, si)):
                        e = deep_strip(e)
                        okk = False
                        if e[0] == "call":
                            df = nr.term(e[1]).get("def") or ""
                            if df.endswith("::default") or df.endswith("Default::default"):
                                okk = True
                            elif re.search(r"atomic::Atomic::<usize>::new$", df):
                                okk = [fold(a) for a in fl.term_arg(e[1], 0)] == [0]
                        elif e[0] == "const":
                            okk = fold(e) == 0 or "new(0" in str(e) or "{transmute(0x0" in str(e)
                        if not okk:
                            bad.append({"where": st["sp"], "initial": show(e)[:120]})
    ctx.check(not bad, rid, "slots-start-zero:%s" % T.split("::")[-1], "the reader counters are constructed as zero (%d construction site(s) of the slot array)" % n_sites,
              None, bad)


def rule_flag_means_idle(ctx, rid, V):
    """a "slot seen idle" flag is raised only on an observed zero: every value written into the wait's bool bookkeeping is the constant false, the
    flag's own previous value, the comparison `slot load == 0` — or the constant true on the true side of such a comparison. (`!= 0` records
    busy slots as idle: the barrier leaves while readers hold the old snapshot.)"""
    F = ctx.F; R = V.R; T = V.T
    m, nm0, s0 = V.swapper()
    nm = inline.cached(F, m, tag="full-hof", hof=True, thread=True)
    fl = flow(nm)
    loads = {sl.bb for (sl, c) in slot_loads(F, nm, R) if c is None}
    if not loads:
        raise AnchorLost("HalfLock<%s>: direct loads of the reader slots in the swapping writer's normal form (combinators opened)" % T)
    from ..conds import facts_at, truth

    def is_idle_cmp(e):
        """+1: `load == 0` / -1: `load != 0` / None"""
        e = deep_strip(e)
        if e[0] == "binop" and e[1] in ("Eq", "Ne"):
            a, b = deep_strip(e[2]), deep_strip(e[3])
            for x, y in ((a, b), (b, a)):
                if x[0] == "call" and x[1] in loads and fold(y) == 0:
                    return 1 if e[1] == "Eq" else -1
        return None
    n = 0; bad = []
    for bb, bl in enumerate(nm.blocks):
        if bl.get("dead") or bl.get("cleanup"):
            continue
        for si, st in enumerate(bl["s"]):
            if st["k"] != "assign" or not st["l"]["p"] or st["l"]["p"][0]["k"] != "deref" or len(st["l"]["p"]) != 1:
                continue
            if nm.local_ty(st["l"]["l"]) not in ("&mut bool", "*mut bool"):
                continue
            n += 1
            rr = st["r"]
            exprs = fl.operand(rr["o"], (bb, si)) if rr["k"] == "use" else None
            if exprs is None:
                if rr["k"] == "binop" and rr.get("op") in ("Eq", "Ne", "BitOr", "BitAnd"):
                    exprs = [("binop", rr["op"], a_, b_) for a_ in fl.operand(rr["a"], (bb, si)) for b_ in fl.operand(rr["b"], (bb, si))]
                else:
                    bad.append({"where": st["sp"], "value": rr["k"]}); continue
            for e in exprs:
                e = deep_strip(e)
                c = is_idle_cmp(e)
                if c == 1:
                    continue
                if c == -1:
                    bad.append({"where": st["sp"], "value": show(e)[:100], "why": "records a busy slot as idle"}); continue
                if e[0] == "binop" and e[1] in ("BitOr",):
                    parts = [deep_strip(e[2]), deep_strip(e[3])]
                    if all(is_idle_cmp(p_) == 1 or p_[0] == "deref" or fold(p_) == 0 for p_ in parts):
                        continue
                    bad.append({"where": st["sp"], "value": show(e)[:100]}); continue
                v = fold(e)
                if v == 0 or e[0] == "deref":
                    continue        # false, or the flag's previous value
                if v == 1:
                    # constant true: only under an observed zero, or under the flag itself being true already — judged where the constant is
                    # produced (`*seen || ..` assigns it on the flag's true side and stores it after the join)
                    def const_sites(local, at, d=0):
                        out = []
                        for site in fl.reaching(local, at):
                            if site[0] == "entry" or d > 5:
                                out.append(None); continue
                            sb2, si2 = site
                            bl2 = nm.blocks[sb2]
                            st2 = bl2["s"][si2] if si2 < len(bl2["s"]) else None
                            if st2 and st2["k"] == "assign" and st2["r"]["k"] == "use" and st2["r"]["o"]["k"] == "const":
                                if st2["r"]["o"]["c"].get("val") == 1:
                                    out.append(sb2)
                            elif st2 and st2["k"] == "assign" and st2["r"]["k"] == "use" and st2["r"]["o"]["k"] in ("copy", "move") and not st2["r"]["o"]["p"]["p"]:
                                out += const_sites(st2["r"]["o"]["p"]["l"], (sb2, si2), d + 1)
                        return out
                    where = [bb]
                    if rr["k"] == "use" and rr["o"]["k"] in ("copy", "move") and not rr["o"]["p"]["p"]:
                        where = const_sites(rr["o"]["p"]["l"], (bb, si)) or [bb]
                    okk = True
                    for wb in where:
                        one = False
                        for (ce, inf, sb) in (facts_at(nm, wb, unwind=False) if wb is not None else []):
                            c2 = is_idle_cmp(ce)
                            tv = truth(inf)
                            if (c2 == 1 and tv is True) or (c2 == -1 and tv is False):
                                one = True
                            if ce[0] == "deref" and tv is True:
                                one = True
                        okk = okk and one
                    if okk:
                        continue
                    bad.append({"where": st["sp"], "value": "true", "why": "set without an observed zero of a reader slot on this path"}); continue
                bad.append({"where": st["sp"], "value": show(e)[:100]})
    ctx.check(not bad, rid, "flag-set-only-on-zero:%s" % T.split("::")[-1],
              "the wait's seen-idle flags are raised only when a reader slot was read as 0 (%d write(s) through a bool reference in the swapping writer)" % n, m.span, bad)
