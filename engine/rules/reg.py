"""Registry anchors on normal forms: the dispatcher and the public mutators of signal-hook-registry with every private helper (and
every std combinator instantiated with a workspace closure) inlined; the entry points of the half lock stay visible as calls."""
import re
from .. import inline, cfg
from ..anchors import handler, action_dyn
from ..facts import AnchorLost, keyname
from ..flow import flow, deps, deep_strip
from . import hl

DATA_T = "signal_hook_registry::SignalData"
FB_T = "core::option::Option<signal_hook_registry::Prev>"


def keep(c):
    """stay visible as calls: the half lock's entry points, and impls of foreign traits (Clone, Drop, From, ..) — rules name those by
    their trait method"""
    return (hl.in_module(c) and c.id not in hl.composite_ids(_F[0])) or (c.local and c.kind == "item" and re.match(r"^<.* as (core|alloc|std)::", c.name) is not None)


_F = [None]


def RN(F, m, hof=True):
    _F[0] = F
    return inline.cached(F, m, keep=keep, tag="reg" if hof else "reg-nohof", hof=hof, thread=True)


class Locks:
    """entry points of the two half locks by role"""

    def __init__(self, F):
        self.R = hl.Roles(F)
        self.V = {}
        for T in hl.lock_types(F):
            self.V[T] = hl.View(F, self.R, T)
        for T in (DATA_T, FB_T):
            if T not in self.V:
                raise AnchorLost("half lock instantiation for %s" % T)

    def readers(self, T):
        return {m.id for m in self.V[T].readers}

    def stores(self, T):
        return {m.id for m in self.V[T].swappers}

    def writers(self, T):
        from .util import adt_constructions
        V = self.V[T]
        return {m.id for m in V.roots if adt_constructions(V.n[m.id], hl.WG)}


_locks = {}


def locks(F):
    if id(F) not in _locks:
        _locks[id(F)] = Locks(F)
    return _locks[id(F)]


def calls_to(m, ids):
    return [(bb, t) for bb, t in m.calls() if t.get("f") in ids]


def handler_n(F):
    h = handler(F)
    return h, RN(F, h)


def action_calls(F, nm):
    d = action_dyn(F)
    return [(bb, t) for bb, t in nm.calls() if t.get("f") is not None and F.inst[t["f"]].kind == "virtual" and F.inst[t["f"]].dyn == d]


def public_fns(F, crate="signal_hook_registry", kinds=("Fn",)):
    """[(fn item, instance)] instances of the public functions of a workspace crate (kinds: Fn, AssocFn)"""
    key = (id(F), crate, kinds)
    if key in _pub:
        return _pub[key]
    out = []
    by_def = F.by_def
    for c, fn in F.crate_items("fns"):
        if (crate is not None and c != crate) or not fn["pub"] or fn["kind"] not in kinds:
            continue
        for i in by_def.get(fn["path"], []):
            if i.body is not None:
                out.append((fn, i))
    _pub[key] = out
    return out


_pub = {}


def roots_containing(F, inst, crates=("signal_hook_registry", "signal_hook")):
    """public entry points (functions and methods of the workspace crates) whose normal form contains `inst` — or is `inst`"""
    out = []
    for c in crates:
        for fn, i in public_fns(F, c, ("Fn", "AssocFn")):
            n = RN(F, i)
            if i.id == inst.id or inst.id in inline.all_inlined(n):
                out.append((fn, i, n))
    return out


def mutators(F, T=DATA_T):
    """[(fn item, instance, normal form, [store call blocks])] public functions whose normal form publishes a snapshot of HalfLock<T>"""
    L = locks(F)
    st = L.stores(T)
    out = []
    for fn, i in public_fns(F):
        n = RN(F, i)
        sites = calls_to(n, st)
        if sites:
            out.append((fn, i, n, sites))
    return out


def src(F, nm, bb):
    return keyname(inline.origin_of(F, nm, bb).name)
