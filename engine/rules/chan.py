"""Channel anchors on normal forms: Channel::{new, send, recv} with every helper (and every std combinator instantiated with a workspace
closure) inlined, except the *queue-word primitives* — the workspace functions that operate on one queue word through a reference to it
(take: returns Option<index>; give: receives an index). Those stay visible as calls and are analysed in their own normal form."""
import re
from .. import inline
from ..facts import AnchorLost
from ..flow import flow, deep_strip, show

CH = "signal_hook::low_level::channel::Channel"
PAYLOAD = "vroots::Payload"
SIGINFO = "libc::unix::linux_like::linux::gnu::b64::x86_64::siginfo_t"
AT16 = "core::sync::atomic::Atomic<u16>"


def word_types(F):
    """type names a queue word can have: AtomicU16 itself or a workspace struct wrapping exactly one"""
    out = {AT16}
    for c, a in F.crate_items("adts"):
        if not a["path"].startswith("signal_hook::low_level::channel::") or len(a["variants"]) != 1:
            continue
        fs = a["variants"][0]["fields"]
        if len(fs) == 1 and fs[0]["ty"] == AT16:
            out.add(a["path"])
    return out


def roles(F):
    a = F.adt(CH)
    fs = a["variants"][0]["fields"]
    wt = word_types(F)
    words = [f["name"] for f in fs if f["ty"] in wt]
    CELLS = r"^\[core::cell::UnsafeCell<core::option::Option<T>>; .*\]$"
    cells = [f["name"] for f in fs if re.match(CELLS, f["ty"])]
    if not cells:
        # the cell array may be wrapped in a private one-field struct of the module (`Cells<T>([UnsafeCell<Option<T>>; N])`)
        adts = {a["path"]: a for c, a in F.crate_items("adts")}
        for f in fs:
            base = re.sub(r"<.*$", "", f["ty"])
            a2 = adts.get(base)
            if a2 and base.startswith("signal_hook::low_level::channel::") and len(a2["variants"]) == 1 and len(a2["variants"][0]["fields"]) == 1 \
                    and re.match(CELLS, a2["variants"][0]["fields"][0]["ty"]):
                cells.append(f["name"])
    if len(words) != 2 or len(cells) != 1:
        raise AnchorLost("channel: two queue words (AtomicU16 or a wrapper of one) and one cell array expected, found %s / %s" % (words, cells))
    return words, cells[0]


def method(F, name, T=PAYLOAD):
    return F.one("%s::<T>::%s" % (CH, name), name_re=re.escape("::<%s>::%s" % (T, name)) + "$", what="Channel<%s>::%s" % (T, name))


def is_primitive(F, c):
    """a workspace function of the channel module whose first parameter is a reference to a queue word"""
    if not (c.local and c.body is not None and c.kind == "item" and c.crate == "signal_hook" and "signal_hook::low_level::channel::" in c.name):
        return False
    if c.body["argc"] < 1:
        return False
    t = c.local_ty(1)
    return any(t == "&" + w or t == "&mut " + w for w in word_types(F))


def CN(F, m):
    return inline.cached(F, m, keep=lambda c: is_primitive(F, c), tag="chan", hof=True, thread=True)


def PN(F, prim):
    return inline.cached(F, prim, tag="chanprim", hof=True, thread=True)


def word_of(exprs, words):
    """which queue-word field does the expression (a reference) point to?"""
    out = set()
    for e in exprs:
        e = deep_strip(e)
        while e[0] in ("ref", "deref"):
            e = deep_strip(e[1])
        if e[0] == "field" and e[2] in words and CH in (e[4] or ""):
            out.add(e[2])
        else:
            out.add("?" + show(e))
    return out


def word_calls(F, m, words):
    """calls of queue-word primitives in a normal form: [(bb, term, callee, word)]"""
    out = []
    for bb, t in m.calls():
        if t.get("f") is None or not t["args"]:
            continue
        c = F.inst[t["f"]]
        if not is_primitive(F, c):
            continue
        w = word_of(flow(m).term_arg(bb, 0), words)
        if len(w) == 1 and not list(w)[0].startswith("?"):
            out.append((bb, t, c, list(w)[0]))
    return out


def is_take(c):
    """a primitive that hands an index out: takes only the queue word, returns Option<index> (a bare u16 or a private wrapper of one)"""
    return c.body["argc"] == 1 and c.local_ty(0).startswith("core::option::Option<")


def is_give(t):
    return len(t["args"]) == 2


def cell_accesses(F, m, cells):
    """[(bb, term, index expr)] of UnsafeCell::get on the storage array"""
    out = []
    for bb, t in m.calls():
        if t.get("f") is None or not F.inst[t["f"]].defp.startswith("core::cell::UnsafeCell::<T>::get"):
            continue
        for e in flow(m).term_arg(bb, 0):
            e = deep_strip(e)
            x = e
            while x[0] in ("ref", "deref"):
                x = deep_strip(x[1])
            if x[0] == "index":
                # the indexed array is the cell field of the channel, possibly behind the single field of a private wrapper
                b_ = deep_strip(x[1]); hops = 0
                while b_[0] in ("field", "ref", "deref") and hops < 4:
                    if b_[0] == "field" and b_[2] == cells and CH in (b_[4] or ""):
                        out.append((bb, t, x[2])); break
                    b_ = deep_strip(b_[1]); hops += 1
    return out


def primitives(F, T=SIGINFO):
    """{id: instance} of the primitives called from send / recv / new of Channel<T>"""
    words, cells = roles(F)
    out = {}
    for nm in ("send", "recv", "new"):
        n = CN(F, method(F, nm, T))
        for (bb, t, c, w) in word_calls(F, n, words):
            out[c.id] = c
    return out
