"""E5 rules shared by C12 / C14 / C18: poison tolerance, poison hazard, panic-in-Drop, lock order."""
import re
from .. import cfg
from ..anchors import is_user_code
from ..effects import Cone, classify, is_leaf
from ..facts import strip_generics, keyname, AnchorLost
from ..locks import lockinfo
from .C03 import undischarged_sites, panic_sites, _discharge, _audited


def lock_short(l):
    return re.sub(r"[\w:]+::(\w+)", r"\1", l)


def poison_rules(ctx, rid, lock_filter=lambda l: True, require_tolerant=lambda l: False, floor=1):
    """(b) per acquisition: tolerant or fatal; (c) a lock with a fatal acquisition has no explicit panic site inside
    any of its critical sections (else one caught panic wedges every later user of that lock)."""
    F = ctx.F
    L = lockinfo(F)
    ctx.rule(rid, "every poison-fatal mutex acquisition (`unwrap`/`expect`/`?` on lock()) belongs to a lock whose critical "
                  "sections contain no explicit panic site; acquisitions required to be tolerant use a poison-recovering idiom",
             floor=floor)
    fatal_locks = {}
    for a in L.acqs:
        if a.kind != "direct" or not lock_filter(a.lock):
            continue
        ctx.fn(a.inst)
        key = "acq:%s@%s" % (lock_short(a.lock), keyname(a.inst.name))
        sp = a.inst.term(a.bb)["sp"]
        if require_tolerant(a.lock):
            ctx.check(a.tolerant, rid, key, "acquisition of %s is poison-tolerant (%s)" % (lock_short(a.lock), a.how), sp,
                      "writer-side mutex acquired with a poison-fatal idiom: " + a.how)
        elif a.tolerant:
            ctx.ok(rid, key, "acquisition of %s is poison-tolerant (%s)" % (lock_short(a.lock), a.how), sp)
        else:
            fatal_locks.setdefault(a.lock, []).append(a)
    # hazard: all critical sections (direct or through wrappers) of locks with a fatal acquisition
    for lock, acqs in fatal_locks.items():
        hazards = []
        for (mid, l), reg in L.regions.items():
            if l != lock:
                continue
            m = F.inst[mid]
            # own sites inside the region
            for site in panic_sites(F, m):
                kind, key, bb, sp, info = site
                if bb not in reg:
                    continue
                # the acquisition's own unwrap happens before the guard exists: not inside the section
                if any(bb == a.bb or _consumes(m, a, bb) for a in acqs if a.inst.id == mid):
                    continue
                okk, _ = _discharge(ctx, F, m, site)
                if not okk:
                    hazards.append({"in": m.name, "site": key, "where": sp})
            # callee cones
            for bb, t in L.held_calls(mid, lock):
                if t["k"] not in ("call", "drop") or t.get("f") is None:
                    continue
                callee = F.inst[t["f"]]
                und, cone = undischarged_sites(ctx, F, [callee])
                for (fm, site, chain) in und[:3]:
                    hazards.append({"in": m.name, "call": callee.name[:160], "call_site": t["sp"], "panic_site": site[1],
                                    "panic_where": site[3], "frame": fm.name[:160]})
        for a in acqs:
            key = "acq:%s@%s" % (lock_short(lock), keyname(a.inst.name))
            ctx.check(not hazards, rid, key,
                      "poison-fatal acquisition of %s (%s): no explicit panic site inside any critical section of that lock"
                      % (lock_short(lock), a.how), a.inst.term(a.bb)["sp"],
                      {"lock": lock, "idiom": a.how, "panic_sites_inside_critical_sections": hazards[:8],
                       "consequence": "a caught panic poisons the mutex and every later acquisition panics"})


def _consumes(m, a, bb):
    """is bb the block in which the Result of acquisition `a` is consumed (unwrap of the lock result itself)?"""
    d = m.term(a.bb).get("dest")
    if not d:
        return False
    t = m.term(bb)
    return t["k"] == "call" and any(x["k"] == "move" and not x["p"]["p"] and x["p"]["l"] == d["l"] for x in t["args"])


def drop_impls(F, type_re):
    out = []
    for i in F.inst:
        m = re.match(r"^<(.*) as core::ops::drop::Drop>::drop$", i.name)
        if m and i.local and i.body is not None and re.search(type_re, m.group(1)):
            out.append(i)
    return out


def drops_reaching(F, defp):
    """workspace Drop::drop impls whose cone contains a call of `defp`"""
    out = []
    for i in F.inst:
        if i.local and i.body is not None and re.match(r"^<.* as core::ops::drop::Drop>::drop$", i.name):
            if any(F.inst[x].defp == defp for x in F.reach([i])):
                out.append(i)
    return out


def panic_in_drop(ctx, rid, type_re, floor=1, drops=None):
    F = ctx.F
    ctx.rule(rid, "no explicit panic site is reachable from a workspace-local Drop::drop (a panic in a destructor during "
                  "unwinding aborts the process)", floor=floor)
    ds = drops if drops is not None else drop_impls(F, type_re)
    if not ds:
        raise AnchorLost("no workspace Drop impl matching %s" % type_re)
    for d in ds:
        ctx.fn(d)
        und, cone = undischarged_sites(ctx, F, [d])
        key = "drop:%s" % keyname(d.name)
        ctx.check(not und, rid, key, "%s reaches no undischarged explicit panic site (%d frames walked)" % (d.name, len(cone.members)),
                  d.span, [{"frame": fm.name[:160], "site": site[1], "where": site[3], "chain": chain[-4:]} for (fm, site, chain) in und[:6]])


def lock_order(ctx, rid, floor=2):
    """acquired-while-holding graph over all locks must be acyclic"""
    F = ctx.F
    L = lockinfo(F)
    ctx.rule(rid, "the acquired-while-holding graph over all workspace locks (mutexes, Once) is acyclic", floor=floor)
    acquires = {}          # inst id -> set(locks acquired directly in that function)
    for a in L.acqs:
        if a.kind in ("direct", "once"):
            acquires.setdefault(a.inst.id, set()).add(a.lock)
    # reader guards: a writer of HalfLock<T> waits (in its barrier) until the readers of that lock are gone: implicit edge
    implicit = {}
    for a in L.acqs:
        if a.kind == "reader":
            for wl, rl in L.reader_lock_of.items():
                if rl == a.lock:
                    implicit.setdefault(wl, set()).add(a.lock)
    edges = {}
    witnesses = {}
    for (mid, lock), reg in L.regions.items():
        m = F.inst[mid]
        for bb, t in L.held_calls(mid, lock):
            if t["k"] not in ("call", "drop") or t.get("f") is None:
                continue
            callee = F.inst[t["f"]]
            par = F.reach([callee])
            for x in par:
                for l2 in acquires.get(x, ()):  # acquired somewhere below while `lock` is held
                    if l2 == lock and x == mid:
                        continue
                    edges.setdefault(lock, set()).add(l2)
                    witnesses.setdefault((lock, l2), (m.name, t["sp"], F.inst[x].name))
    # Once: held while its closure runs
    for a in L.acqs:
        if a.kind == "once":
            t = a.inst.term(a.bb)
            callee = F.inst[t["f"]]
            par = F.reach([callee])
            for x in par:
                for l2 in acquires.get(x, ()):
                    if l2 != a.lock:
                        edges.setdefault(a.lock, set()).add(l2)
                        witnesses.setdefault((a.lock, l2), (a.inst.name, t["sp"], F.inst[x].name))
    for wl, rs in implicit.items():
        for r in rs:
            edges.setdefault(wl, set()).add(r)
            witnesses.setdefault((wl, r), ("WriteGuard::store", "write barrier", "waits until the reader count of that lock drained"))
    locks = L.locks()
    for l in locks:
        ctx.ok(rid, "lock:%s" % lock_short(l), "lock node %s; acquires while holding: %s" % (lock_short(l), sorted(lock_short(x) for x in edges.get(l, ())) or "nothing"))
    # cycle detection
    color = {}
    cyc = []

    def dfs(u, stack):
        color[u] = 1
        for v in edges.get(u, ()):
            if color.get(v) == 1:
                cyc.append(stack + [u, v])
            elif v not in color:
                dfs(v, stack + [u])
        color[u] = 2
    for l in locks:
        if l not in color:
            dfs(l, [])
    ctx.check(not cyc, rid, "order:acyclic", "lock-order graph acyclic (%d locks, %d edges)" % (len(locks), sum(len(v) for v in edges.values())),
              None, [{"cycle": [lock_short(x) for x in c], "witness": [witnesses.get((c[i], c[i + 1])) for i in range(len(c) - 1)]} for c in cyc[:3]])
    return edges, witnesses


def cleanup_on_every_path(ctx, rid, floor=1):
    """the destructor that takes an instance's registrations out of the registry does so on every path: in its normal form, every path from
    entry to return runs through the unregistering code (the call, or the loop around it) — in particular the `Err(poisoned)` outcome of
    whatever gives access to the id table (`lock()`, `get_mut()`, `into_inner()`) must not skip it. A refusal by panic inside add_signal
    happens while the table's mutex is held and poisons it; an instance dropped afterwards still has registrations to remove."""
    from .nf import NF
    F = ctx.F
    ctx.rule(rid, "the destructor releasing an instance's registrations reaches the unregistering code on every path to its return (a poisoned "
                  "id-table mutex does not make it skip the clean-up)", floor=floor)
    ds = [d for d in drops_reaching(F, "signal_hook_registry::unregister") if d.crate == "signal_hook"]
    if not ds:
        raise AnchorLost("no signal-hook destructor reaches signal_hook_registry::unregister")
    for d in ds:
        ctx.fn(d)
        n = NF(F, d)
        un = {bb for bb, t in n.calls() if t.get("f") is not None and any(F.inst[x].defp == "signal_hook_registry::unregister" for x in set(F.reach([F.inst[t["f"]]])) | {t["f"]})}
        un = {b for b in un if not n.blocks[b].get("dead") and not n.blocks[b].get("cleanup")}
        if not un:
            raise AnchorLost("unregister call in the normal form of %s" % d.name)
        region = set(un)
        for comp in cfg.cycles(n, unwind=False):
            if comp & un:
                region |= comp
        rets = [b for b in range(n.nblocks()) if n.term(b)["k"] == "return" and not n.blocks[b].get("dead")]
        r = cfg.reachable(n, 0, avoid=region, unwind=False) if 0 not in region else set()
        skipped = sorted(set(rets) & r)
        ctx.check(not skipped, rid, "cleanup:%s" % keyname(d.name), "%s runs through its unregistering code on every path" % keyname(d.name).split("::")[-2:][0], d.span,
                  {"path_skipping_the_cleanup": [n.term(b)["sp"].split("/")[-1] for b in (cfg.path(n, 0, skipped[0], avoid=region, unwind=False) or [])][:10]} if skipped else None)
