"""C17 — reported signal origin equals the kernel's facts (sibling-table agreement C <-> Rust)."""
import re
from .. import cfg
from ..conds import facts_at, truth
from ..effects import _tsv
from ..facts import keyname, AnchorLost
from ..flow import infeasible, flow, deps, deep_strip, strip, show, mentions, fold
from .util import call_sites

ICAUSE = "signal_hook::low_level::siginfo::ICause"
CAUSE = "signal_hook::low_level::siginfo::Cause"
SIGCHLD = 17


def norm(n):
    n = n.upper()
    for p in ("SI_", "CLD_"):
        if n.startswith(p):
            n = n[len(p):]
    return n.replace("_", "")


def c_decl(F, kind, name):
    if F.c_ast is None:
        raise AnchorLost("src/low_level/extract.c was not found / parsed")
    for d in F.c_ast["decls"]:
        if d["kind"] == kind and d.get("name") == name:
            return d
    raise AnchorLost("C declaration %s %s" % (kind, name))


def int_of(n):
    """integer value of a (possibly negated / cast) literal expression"""
    k = n["kind"]
    if k == "IntegerLiteral":
        return int(n["value"])
    if k == "UnaryOperator" and n.get("opcode") == "-":
        v = int_of(n["inner"][0])
        return None if v is None else -v
    if k in ("ImplicitCastExpr", "ParenExpr", "CStyleCastExpr", "ConstantExpr"):
        return int_of(n["inner"][0])
    return None


def ref_of(n):
    k = n["kind"]
    if k == "DeclRefExpr":
        return n["ref"]["name"]
    if k in ("ImplicitCastExpr", "ParenExpr", "CStyleCastExpr", "ConstantExpr"):
        return ref_of(n["inner"][0])
    return None


def c_table(F):
    v = c_decl(F, "VarDecl", "consts")
    init = [x for x in v.get("inner", []) if x["kind"] == "InitListExpr"]
    if not init:
        raise AnchorLost("consts[] initialiser")
    rows = []
    for r in init[0]["inner"]:
        if r["kind"] != "InitListExpr" or len(r["inner"]) != 3:
            raise AnchorLost("consts[] row shape")
        a, b, c = r["inner"]
        rows.append({"name": ref_of(a), "native": int_of(a), "signal": int_of(b) if int_of(b) is not None else ref_of(b), "translated": int_of(c), "line": r.get("line")})
    return rows


def cexpr(n):
    """canonical string of a C expression (commutative operators sorted)"""
    k = n["kind"]
    if k in ("ImplicitCastExpr", "ParenExpr", "CStyleCastExpr", "ConstantExpr"):
        return cexpr(n["inner"][0])
    if k == "IntegerLiteral":
        return n["value"]
    if k == "UnaryOperator":
        return "%s%s" % (n.get("opcode"), cexpr(n["inner"][0]))
    if k == "DeclRefExpr":
        return n["ref"]["name"]
    if k == "MemberExpr":
        return "%s.%s" % (cexpr(n["inner"][0]), n.get("name"))
    if k == "ArraySubscriptExpr":
        return "%s[%s]" % (cexpr(n["inner"][0]), cexpr(n["inner"][1]))
    if k == "BinaryOperator":
        a, b = cexpr(n["inner"][0]), cexpr(n["inner"][1])
        op = n.get("opcode")
        if op in ("==", "&&", "||", "!="):
            a, b = sorted([a, b])
        return "(%s %s %s)" % (a, op, b)
    return k


def find(n, kind):
    out = []
    if n.get("kind") == kind:
        out.append(n)
    for x in n.get("inner", []):
        out += find(x, kind)
    return out


def rule_a(ctx):
    F = ctx.F
    rid = "C17.a"
    ctx.rule(rid, "every code the C table translates to is a valid discriminant of the repr(u8) Rust enum, the fall-through is the `Unknown` "
                  "discriminant, and C enumerator <-> Rust variant correspond by name", floor=12)
    ic = F.adt(ICAUSE)
    ctx.check("I8, false" in ic["repr"] or "U8" in ic["repr"].upper(), rid, "repr", "ICause is repr(u8) (the C side returns uint8_t)", ic["span"], ic["repr"])
    disc = {v["discr"]: v["name"] for v in ic["variants"]}
    rows = c_table(F)
    used = set()
    for r in rows:
        key = "row:%s" % r["name"]
        v = disc.get(r["translated"])
        ctx.check(v is not None, rid, key + ":valid-discriminant", "%s -> %s is a discriminant of ICause (%s)" % (r["name"], r["translated"], v), "extract.c:%s" % r["line"],
                  "returning a byte that is no discriminant is undefined behaviour on the Rust side")
        if v is None:
            continue
        ctx.check(norm(r["name"]) == norm(v), rid, key + ":name", "C enumerator %s corresponds to Rust variant %s" % (r["name"], v), "extract.c:%s" % r["line"],
                  {"c": r["name"], "rust": v})
        if v in used:
            ctx.bad(rid, key + ":dup", "two C rows translate to the same variant %s" % v, "extract.c:%s" % r["line"])
        used.add(v)
    f = c_decl(F, "FunctionDecl", "sighook_signal_cause")
    unknown = [d for d, n in disc.items() if n == "Unknown"]
    missing = [n for n in disc.values() if n not in used and n != "Unknown"]
    ctx.check(not missing, rid, "all-variants-produced", "every non-Unknown variant has a C row", None, missing)

    # path conditions of every value the classifier can return (engine.cpaths: helpers opened up, &&/||/! decomposed, rows canonicalised)
    from .. import cpaths
    res = cpaths.outcomes(F.c_ast, "sighook_signal_cause")
    if not res:
        raise AnchorLost("C classifier sighook_signal_cause: no return paths found")
    # the row's fields by role (whatever they are called): the one returned, the one compared with si_code, the one compared with si_signo
    rets = {r[1] for r in res if r[1].startswith("ROW.")}
    atoms_all = {a for r in res for a, p in r[0]}

    def field_vs(what):
        fs = set()
        for a in atoms_all:
            mm = re.match(r"^\((.+) == (.+)\)$", a)
            if mm and what in (mm.group(1), mm.group(2)):
                o = mm.group(2) if mm.group(1) == what else mm.group(1)
                if o.startswith("ROW."):
                    fs.add(o)
        return fs
    cf, sf = field_vs("info.si_code"), field_vs("info.si_signo")
    if len(rets) != 1 or len(cf) != 1 or len(sf) != 1:
        raise AnchorLost("C classifier: row fields by role (returned %s / compared with si_code %s / with si_signo %s)" % (sorted(rets), sorted(cf), sorted(sf)))
    RET, CF, SF = rets.pop(), cf.pop(), sf.pop()
    A_CODE = "(%s == %s)" % tuple(sorted([CF, "info.si_code"]))
    A_ANY = "(%s == %s)" % tuple(sorted(["-1", SF]))
    A_SIG = "(%s == %s)" % tuple(sorted([SF, "info.si_signo"]))
    rowres = [r for r in res if r[1] == RET]

    def matched(conds):
        pos = {a for a, p in conds if p}
        return A_CODE in pos and (A_ANY in pos or A_SIG in pos)
    okc = bool(rowres) and all(matched(r[0]) for r in rowres)
    ctx.check(okc, rid, "c-match-condition", "a row's code is produced only under native == si_code and (signal == -1 or signal == si_signo)", None,
              [{"line": r[3], "conditions": ["%s%s" % ("" if p else "!", a) for a, p in r[0]]} for r in rowres])
    # ... and each alternative is sufficient on its own: a wildcard row needs no signal match, a specific row needs no wildcard
    def pos(r):
        return {a for a, p in r[0] if p}
    wild = [r for r in rowres if A_CODE in pos(r) and A_ANY in pos(r) and A_SIG not in pos(r)]
    spec = [r for r in rowres if A_CODE in pos(r) and A_SIG in pos(r) and A_ANY not in pos(r)]
    ctx.check(bool(wild) and bool(spec), rid, "c-match-alternatives", "a row with signal == -1 matches on the code alone, and a row naming a signal matches when "
              "that signal is the delivered one (`||`, each alternative sufficient)", None,
              [{"line": r[3], "conditions": ["%s%s" % ("" if p else "!", a) for a, p in r[0]]} for r in rowres])
    # the scan stays inside the table: an inclusive bound (`<=` against the length / one-past-the-end) reads one row too many
    loops = []

    def find_loops(n):
        if isinstance(n, dict):
            if n.get("kind") in ("ForStmt", "WhileStmt"):
                loops.append(n)
            for x in n.get("inner", []) or []:
                find_loops(x)
    find_loops(f)
    bad_bounds = []
    nb = 0
    for lp in loops:
        for x in lp.get("inner", []) or []:
            x = cpaths.strip(x) if isinstance(x, dict) and x.get("kind") else x
            if isinstance(x, dict) and x.get("kind") == "BinaryOperator" and x.get("opcode") in ("<", "<=", ">", ">=", "!="):
                nb += 1
                txt = cpaths.expr(x, {})
                if x.get("opcode") in ("<=", ">=") and " - 1" not in txt and "-1" not in txt.replace("(-1 ==", ""):
                    bad_bounds.append({"line": x.get("line"), "condition": txt})
                break
    for lp in loops:
        if lp.get("kind") != "ForStmt" or not lp.get("inner"):
            continue
        init = lp["inner"][0]
        cands = []
        if isinstance(init, dict) and init.get("kind") == "BinaryOperator" and init.get("opcode") == "=":
            cands.append(init["inner"][1])
        if isinstance(init, dict) and init.get("kind") == "DeclStmt":
            cands += [v["inner"][-1] for v in init.get("inner", []) if v.get("kind") == "VarDecl" and v.get("inner")]
        for cnd in cands:
            iv = cpaths.int_of(cnd)
            if iv is not None and iv != 0:
                bad_bounds.append({"line": cnd.get("line"), "start": iv, "why": "the scan skips the first row(s) of the table"})
    ctx.check(not bad_bounds, rid, "c-scan-bound", "the table scan starts at the first row and is bounded exclusively by the table length (%d loop condition(s) examined)" % nb, None, bad_bounds)
    ctx.check(bool(rowres), rid, "c-returns-translated", "the matched row's translated code is returned", None, [r[1] for r in res])
    unk = [r for r in res if r[2] is not None and unknown and r[2] == unknown[0] and not [a for a, p in r[0] if p]]
    ctx.check(len(unknown) == 1 and bool(unk), rid, "fallthrough-unknown", "when no row matches the result is the Unknown discriminant (%s)" % unknown, None,
              [(r[1], r[0]) for r in res])
    extra = [{"value": r[1], "line": r[3]} for r in res if not (r[1] == RET or (r[2] is not None and unknown and r[2] == unknown[0]))]
    ctx.check(not extra, rid, "c-returns-only-table-or-unknown", "the C classifier returns nothing but a matched row's code or the Unknown code (no catch-all class "
              "for unlisted si_code values)", None, {"other_results": extra, "why": "e.g. treating every negative si_code as 'queued' makes SI_TIMER/SI_ASYNCIO records "
                                                     "report a timer id as a process id"})
    return rows, disc


def rule_b(ctx, rows):
    rid = "C17.b"
    ctx.rule(rid, "CLD_* rows are restricted to SIGCHLD, SI_* rows apply to any signal (CLD_* values collide with fault codes of other signals)", floor=11)
    for r in rows:
        key = "restrict:%s" % r["name"]
        if (r["name"] or "").startswith("CLD_"):
            ctx.check(r["signal"] in (SIGCHLD, "SIGCHLD"), rid, key, "%s applies to SIGCHLD only" % r["name"], "extract.c:%s" % r["line"], r["signal"])
        else:
            ctx.check(r["signal"] == -1, rid, key, "%s applies to every signal" % r["name"], "extract.c:%s" % r["line"], r["signal"])


def rule_c(ctx, disc):
    F = ctx.F
    rid = "C17.c"
    ctx.rule(rid, "From<ICause> for Cause maps every variant to the like-named public variant and everything else to Unknown; has_process is "
                  "false exactly for the classes for which the kernel fills no pid/uid (sigaction(2))", floor=20)
    fr = F.one(name_re=r"^<%s as core::convert::From<%s>>::from$" % (re.escape(CAUSE), re.escape(ICAUSE)), what="From<ICause> for Cause")
    ctx.fn(fr)
    from .. import inline
    from .nf import keep_for
    from ..conds import switch_edges

    def full(m0):
        # helpers, closures, combinators and the shape predicates (`is_some`, ..) opened up: the function becomes a decision tree on the
        # discriminant of its argument, however it is split into helpers and early returns
        return inline.cached(F, m0, keep=lambda c: False, tag="c17-full", hof=True, thread=True,
                             inlinable=lambda c: inline.default_inlinable(F, c, True) or (c is not None and c.body is not None and bool(inline.SHAPE_PRED_RE.match(c.name))))

    def on_variant(n, d):
        """return-value expressions of n when its (enum) argument has discriminant d: every switch on that discriminant is resolved by
        assuming the other edges away, then constants are folded again"""
        cut = set(); seen_sw = 0
        for (b2, tgt, lab, exprs, t2) in switch_edges(n):
            if n.blocks[b2].get("dead"):
                continue
            ex = [deep_strip(e) for e in exprs]
            if not ex or not all(e[0] == "discr" and deps(n, [e]) <= {("param", 1)} for e in ex):
                continue
            seen_sw += 1
            vals = [v for v, _ in t2["vals"]]
            if lab.startswith("sw:"):
                if int(lab[3:]) != d:
                    cut.add((b2, tgt))
            elif d in vals:
                cut.add((b2, tgt))
        n2 = inline.assuming(F, n, cut) if cut else n
        fl2 = flow(n2)
        live = cfg.reachable(n2, 0, unwind=False)
        out = []
        for rb in n2.exits():
            if rb in live and not n2.blocks[rb].get("dead"):
                out += [e for e in fl2.place({"l": 0, "p": []}, (rb, len(n2.stmts(rb)))) if not infeasible(e)]
        return out, seen_sw

    def variant_names(e, acc):
        e = deep_strip(e)
        if e[0] == "agg" and e[1][0] == "adt":
            acc.append(e[1][2])
            for x in e[2]:
                variant_names(x, acc)
        elif e[0] == "const" and e[4]:
            acc.append(e[4])
        return acc
    nfr = full(fr)
    nsw = 0
    for d, name in sorted(disc.items()):
        ex, k = on_variant(nfr, d)
        nsw = max(nsw, k)
        names = sorted({x for e in ex for x in variant_names(e, [])})
        if name == "Unknown":
            okk = bool(ex) and set(names) == {"Unknown"}
        else:
            okk = bool(ex) and name in names and "Unknown" not in names
        ctx.check(okk, rid, "from:%s" % name, "ICause::%s maps to Cause::…%s" % (name, name), fr.span, {"produced": names, "values": [show(e)[:80] for e in ex][:4]})
    if nsw == 0:
        raise AnchorLost("From<ICause>: no branch on the discriminant of the argument")
    other = [x for x in range(256) if x not in disc][:1]
    ex, _ = on_variant(nfr, other[0])
    names = sorted({x for e in ex for x in variant_names(e, [])})
    ctx.check(set(names) <= {"Unknown"}, rid, "from:otherwise", "any other byte maps to Cause::Unknown (or the match is exhaustive)", fr.span, names)
    hp = F.one("signal_hook::low_level::siginfo::ICause::has_process")
    ctx.fn(hp)
    valid = {}
    for r in _tsv("siginfo_field_validity.tsv"):
        valid[norm(r[0])] = (r[1] == "yes")
    from ..flow import eval_on_discriminant
    nhp = full(hp)
    for d, name in sorted(disc.items()):
        got = eval_on_discriminant(hp, d)
        if got is None:
            ex, _ = on_variant(nhp, d)
            vals = {fold(e) if fold(e) is not None else inline._const_discr(F, e) for e in ex}
            got = vals.pop() if len(vals) == 1 and None not in vals else None
        want = valid.get(norm(name))
        ctx.check(want is not None and got is not None and got == int(want), rid, "has_process:%s" % name,
                  "has_process(%s) = %s (kernel fills si_pid/si_uid: %s)" % (name, None if got is None else bool(got), want), hp.span, {"code": got, "oracle": want})


def rule_d(ctx):
    F = ctx.F
    rid = "C17.d"
    ctx.rule(rid, "pid/uid readers run only under has_process(cause of the same record); `signal` is si_signo of the argument; the Rust extern "
                  "declarations and the C definitions agree in name, arity and return width; the C readers return si_pid / si_uid", floor=8)
    ex0 = F.one("signal_hook::low_level::siginfo::Origin::extract")
    ctx.fn(ex0)
    from .nf import NF
    from .. import inline
    HP = r"^signal_hook::low_level::siginfo::ICause::has_process$"
    ex = NF(F, ex0, vocab=[HP])
    fl = flow(ex)
    cause_calls = [(bb, t) for bb, t in ex.calls() if t.get("f") is not None and F.inst[t["f"]].symbol == "sighook_signal_cause"]
    hp_calls = [(bb, t) for bb, t in ex.calls() if (t.get("def") or "").endswith("ICause::has_process")]
    rd_calls = [(bb, t) for bb, t in ex.calls() if t.get("f") is not None and F.inst[t["f"]].symbol in ("sighook_signal_pid", "sighook_signal_uid")]
    if len(cause_calls) != 1 or len(hp_calls) != 1 or len(rd_calls) != 2:
        raise AnchorLost("Origin::extract shape (cause %d / has_process %d / pid+uid readers %d)" % (len(cause_calls), len(hp_calls), len(rd_calls)))
    cb, hb = cause_calls[0][0], hp_calls[0][0]
    a = [deep_strip(e) for e in fl.term_arg(cb, 0)]
    ctx.check(all(strip(e[1] if e[0] == "ref" else e) in (("param", 1), ("deref", ("param", 1))) or deps(ex, [e]) == {("param", 1)} for e in a), rid, "cause-of-argument",
              "the cause is computed from the function's own siginfo argument", cause_calls[0][1]["sp"], [show(e) for e in a])
    hd = deps(ex, fl.term_arg(hb, 0))
    ctx.check(("call", cb) in hd, rid, "has_process-of-that-cause", "has_process is asked about that very cause", hp_calls[0][1]["sp"], sorted(map(str, hd)))
    for pb, pt in rd_calls:
        sym = F.inst[pt["f"]].symbol
        guarded = any(ce[0] == "call" and ce[1] == hb and truth(inf) is True for (ce, inf, sb) in facts_at(ex, pb))
        ctx.check(guarded, rid, "pid-uid-guarded:%s" % sym, "si_pid/si_uid are read only on the true branch of has_process()", pt["sp"], [(show(c), i) for c, i, _ in facts_at(ex, pb)][:8])
        pa = deps(ex, fl.term_arg(pb, 0))
        ctx.check(pa == {("param", 1)}, rid, "pid-uid-of-argument:%s" % sym, "the process is extracted from the same siginfo", pt["sp"], sorted(map(str, pa)))
    # readers nowhere else: every function calling a reader directly is part of Origin::extract's normal form, and so is every caller of such a helper
    inl = set(inline.all_inlined(ex)) | {ex0.id}
    readers = [i for i in F.inst if i.kind == "foreign" and i.symbol in ("sighook_signal_pid", "sighook_signal_uid")]
    for r in readers:
        direct = {c for (c, k, bb) in F.callers().get(r.id, [])}
        outside = sorted(F.inst[c].name for c in direct if c not in inl)
        ctx.check(not outside, rid, "reader-callers:%s" % r.symbol, "%s is called only on the guarded path of Origin::extract" % r.symbol, None, outside)
        for c in direct:
            if c == ex0.id:
                continue
            up = sorted(F.inst[x].name for (x, k, bb) in F.callers().get(c, []) if x not in inl)
            ctx.check(not up, rid, "reader-helper-callers:%s" % keyname(F.inst[c].name).split("::")[-1], "the helper reading si_pid/si_uid is called only from the guarded site", None, up)
    # Origin.signal = si_signo of the argument; None assigned on the has_process==false branch
    aggs = [(bb, si, s) for bb, bl in enumerate(ex.blocks) for si, s in enumerate(bl["s"]) if s["k"] == "assign" and s["r"]["k"] == "aggregate" and s["r"].get("def", "").endswith("siginfo::Origin")
            and not bl.get("dead")]
    if not aggs:
        raise AnchorLost("Origin aggregate")
    rdb = {pb for pb, _ in rd_calls}
    for bb, si, s in aggs:
        fields = s["r"]["fields"]
        sg = [deep_strip(e) for e in fl.operand(s["r"]["ops"][fields.index("signal")], (bb, si))]
        ctx.check(bool(sg) and all(e[0] == "field" and e[2] == "si_signo" and deep_strip(e[1]) in (("param", 1), ("deref", ("param", 1))) for e in sg), rid, "signal-is-si_signo",
                  "Origin.signal is si_signo of the argument", s["sp"], [show(e) for e in sg])
        from ..flow import infeasible
        pr = [deep_strip(e) for e in fl.operand(s["r"]["ops"][fields.index("process")], (bb, si))]
        pr = [e for e in pr if not infeasible(e)]

        def none_or_read(e):
            if (e[0] == "agg" and e[1][0] == "adt" and e[1][2] == "None") or (e[0] == "const" and e[4] == "None"):
                return True
            d = deps(ex, [e])
            return bool({x[1] for x in d if x[0] == "call"} & rdb)
        ctx.check(bool(pr) and all(none_or_read(e) for e in pr), rid, "process-none-or-extracted", "Origin.process is None or the guarded extraction (never stale memory)", s["sp"], [show(e) for e in pr])
        # ... and it is None only when the kernel supplies no process: every `None` that can reach the field is assigned on the
        # has_process() == false branch (a None on the true branch drops a pid/uid the kernel did supply)
        bad_none = []
        # true edges of the test(s) on has_process(cause)
        from ..conds import switch_edges
        true_tg = set()
        for (b2, tgt, lab, exprs, t2) in switch_edges(ex):
            for x in exprs:
                x = deep_strip(x)
                neg = False
                if x[0] == "unop" and x[1] == "Not":
                    neg = True; x = deep_strip(x[2])
                if x[0] == "call" and x[1] == hb:
                    val = int(lab[3:]) if lab.startswith("sw:") else None
                    is_true = (val is not None and val != 0) or (val is None and [v for v, _ in t2["vals"]] == [0])
                    if is_true != neg:
                        true_tg.add(tgt)
        exits = set(ex.exits())

        def defs_of(local):
            """[(bb, is_none)] plain assignments to `local` and partial assignments to its `process` field"""
            out = []
            for b_, bl_ in enumerate(ex.blocks):
                if bl_.get("dead"):
                    continue
                for st in bl_["s"]:
                    if st["k"] != "assign" or st["l"]["l"] != local:
                        continue
                    r_ = st["r"]
                    nn = (r_["k"] == "aggregate" and r_.get("variant") == "None") or (r_["k"] == "use" and r_["o"]["k"] == "const" and r_["o"]["c"].get("variant") == "None")
                    out.append((b_, nn, st))
            return out

        res_local = s["l"]["l"]
        over_field = set()
        for b_, bl_ in enumerate(ex.blocks):
            for st in bl_["s"]:
                if st["k"] == "assign" and st["l"]["l"] == res_local and st["l"]["p"] and st["l"]["p"][-1]["k"] == "field" and st["l"]["p"][-1]["n"] == "process":
                    r_ = st["r"]
                    nn = (r_["k"] == "aggregate" and r_.get("variant") == "None") or (r_["k"] == "use" and r_["o"]["k"] == "const" and r_["o"]["c"].get("variant") == "None")
                    if not nn:
                        over_field.add(b_)

        def check_local(local, depth=0):
            ds = defs_of(local)
            over = {b_ for b_, nn, st in ds if not nn} | over_field
            for b_, nn, st in ds:
                if nn:
                    # a path on which has_process() answered true and this None survives to the end?
                    caseA = any(tg in cfg.reachable(ex, b_, avoid=over - {b_}, unwind=False) and (cfg.reachable(ex, tg, avoid=over, unwind=False) & exits) for tg in true_tg)
                    caseB = any(b_ in cfg.reachable(ex, tg, unwind=False) for tg in true_tg) and bool(cfg.reachable_after(ex, b_, avoid=over, unwind=False) & exits or b_ in exits)
                    if caseA or caseB:
                        bad_none.append(st["sp"])
                elif depth < 4 and st["r"]["k"] == "use" and st["r"]["o"]["k"] in ("copy", "move") and not st["r"]["o"]["p"]["p"]:
                    check_local(st["r"]["o"]["p"]["l"], depth + 1)
        op = s["r"]["ops"][fields.index("process")]
        if op["k"] in ("copy", "move") and not op["p"]["p"]:
            check_local(op["p"]["l"])
        elif op["k"] == "const" and op["c"].get("variant") == "None":
            # `Origin { process: None, .. }` filled in afterwards through `origin.process = Some(..)`
            res_local = s["l"]["l"]
            over = set()
            for b_, bl_ in enumerate(ex.blocks):
                for st in bl_["s"]:
                    if st["k"] == "assign" and st["l"]["l"] == res_local and st["l"]["p"] and st["l"]["p"][-1]["k"] == "field" and st["l"]["p"][-1]["n"] == "process":
                        r_ = st["r"]
                        nn = (r_["k"] == "aggregate" and r_.get("variant") == "None") or (r_["k"] == "use" and r_["o"]["k"] == "const" and r_["o"]["c"].get("variant") == "None")
                        if not nn:
                            over.add(b_)
            caseA = any(tg in cfg.reachable(ex, bb, avoid=over, unwind=False) and (cfg.reachable(ex, tg, avoid=over, unwind=False) & exits) for tg in true_tg)
            caseB = any(bb in cfg.reachable(ex, tg, unwind=False) for tg in true_tg) and bool(cfg.reachable_after(ex, bb, avoid=over, unwind=False) & exits)
            if caseA or caseB:
                bad_none.append(s["sp"])
        ctx.check(not bad_none, rid, "process-none-only-without-process", "Origin.process is None only on the branch where has_process() is false", s["sp"],
                  {"none_assigned_although_has_process": sorted(set(bad_none))})
    # extern agreement
    for sym, ret_rust, ret_c in (("sighook_signal_cause", ICAUSE, "uint8_t"), ("sighook_signal_pid", "i32", "pid_t"), ("sighook_signal_uid", "u32", "uid_t")):
        d = c_decl(F, "FunctionDecl", sym)
        params = [x for x in d.get("inner", []) if x["kind"] == "ParmVarDecl"]
        cty = d.get("type", "")
        rs = [i for i in F.inst if i.kind == "foreign" and i.symbol == sym]
        okk = len(params) == 1 and cty.startswith(ret_c + " (") and "siginfo_t *" in cty and len(rs) == 1
        ctx.check(okk, rid, "extern:%s" % sym, "C `%s` matches the Rust declaration (1 pointer argument, returns %s)" % (cty, ret_c), None, {"c_type": cty, "rust_instances": len(rs)})
    for sym, member in (("sighook_signal_pid", "si_pid"), ("sighook_signal_uid", "si_uid")):
        d = c_decl(F, "FunctionDecl", sym)
        rets = find(d, "ReturnStmt")
        got = [cexpr(r["inner"][0]) for r in rets if r.get("inner")]
        ctx.check(len(got) == 1 and got[0].startswith("info.") and got[0].endswith("." + member), rid, "c-reader:%s" % member, "the C reader returns info->%s" % member, None, got)


def run(ctx):
    r = ctx.guarded("C17.a", rule_a)
    if r:
        rows, disc = r
        ctx.guarded("C17.b", rule_b, rows)
        ctx.guarded("C17.c", rule_c, disc)
    ctx.guarded("C17.d", rule_d)
    ctx.note("not decided: what the kernel actually writes into siginfo_t; macOS/BSD configurations (not compiled here)")
    ctx.assume("the C file is parsed by clang with the host's headers (glibc): SI_*/CLD_* are enumerators there")
