"""helpers shared by the iterator rules (C09 / C10 / C11)"""
import re
from ..facts import AnchorLost
from ..flow import flow, deps, deep_strip

EXF = ("SignalOnly", "WithRawSiginfo", "WithOrigin")
BE = "signal_hook::iterator::backend::"


def exf_of(name):
    for e in EXF:
        if re.search(r"exfiltrator::(\w+::)?%s\b" % e, name):
            return e
    return "?"


def insts(F, rx, what, minimum=1):
    want_closure = "closure" in rx
    r = [i for i in F.inst if i.local and i.body is not None and re.search(rx, i.name) and (want_closure or i.kind != "closure")]
    if len(r) < minimum:
        raise AnchorLost("%s: found %d instance(s), expected >= %d" % (what, len(r), minimum))
    return r


def action_closures(F):
    return insts(F, r"^<signal_hook::iterator::backend::PendingSignals<.*> as signal_hook::iterator::backend::AddSignal>::add_signal::\{closure#0\}$",
                 "iterator action closures", 3)


def pending_next(F):
    return insts(F, r"^<signal_hook::iterator::backend::Pending<.*> as core::iter::traits::iterator::Iterator>::next$", "Pending::next", 3)


def poll_signals(F):
    return insts(F, r"^signal_hook::iterator::backend::SignalIterator::<.*>::poll_signal::<", "SignalIterator::poll_signal", 3)


def callback_calls(F, m, param=2):
    """calls in m whose callee object derives from parameter `param` (the readiness callback)"""
    out = []
    for bb, t in m.calls():
        if not t["args"]:
            continue
        d = t.get("def") or ""
        if not (d.startswith("core::ops::function::FnMut::call_mut") or d.startswith("core::ops::function::Fn::call") or d.startswith("core::ops::function::FnOnce::call_once")):
            continue
        a0 = deps(m, flow(m).term_arg(bb, 0), follow=lambda x: False)
        if ("param", param) in a0:
            out.append((bb, t))
    return out


def delegating_calls(F, m, param=2):
    """calls of workspace functions that receive the callback (parameter `param`) as an argument"""
    out = []
    for bb, t in m.calls():
        if t.get("f") is None:
            continue
        c = F.inst[t["f"]]
        if not (c.local and c.body is not None):
            continue
        d = t.get("def") or ""
        if d.startswith("core::ops::function::"):
            continue
        for ai in range(len(t["args"])):
            a = deps(m, flow(m).term_arg(bb, ai), follow=lambda x: False)
            if ("param", param) in a:
                out.append((bb, t, c, ai)); break
    return out


def slot_index_exprs(m, exprs):
    """index expressions of a reference into the slot table: `&slots[i]` (Index projection) or the payload of `slots.get(i)`"""
    from ..flow import flow as _flow
    out = []
    for e in exprs:
        x = deep_strip(e)
        while x[0] in ("ref", "deref", "cast"):
            x = deep_strip(x[1])
        if x[0] == "index":
            out.append(x[2])
        elif x[0] == "field" and deep_strip(x[1])[0] == "downcast" and deep_strip(x[1])[2] == "Some":
            c = deep_strip(deep_strip(x[1])[1])
            if c[0] == "call" and re.search(r"slice::<impl \[T\]>::get(_unchecked)?$", c[3] or ""):
                out += list(_flow(m).term_arg(c[1], 1))
    return out
