"""C02 — each delivery runs exactly one consistent snapshot of the actions, in order (structural part)."""
import re
from .. import cfg
from ..anchors import handler, action_dyn, is_user_code, action_site
from ..atomics import sites
from ..facts import keyname, AnchorLost
from ..flow import flow, deps, deep_strip, strip, show, mentions, fold
from .util import call_sites, exactly_once
from .hl import Roles, on_field, RG, WG
from . import reg, hl

from .reg import DATA_T, FB_T


def slot_lookup(F, h):
    """the call that looks the slot up in the per-signal map of the snapshot"""
    out = []
    for bb, t in h.calls():
        if t.get("f") is None:
            continue
        c = F.inst[t["f"]]
        if re.match(r"^std::collections::hash::map::HashMap::<i32, signal_hook_registry::Slot>::(get|get_key_value)::<", c.name):
            out.append((bb, t))
    return out


def rule_a(ctx):
    F = ctx.F
    rid = "C02.a"
    ctx.rule(rid, "the dispatcher takes exactly one read guard on the snapshot lock on every path, outside any loop; the slot lookup and the "
                  "iteration derive from that guard", floor=2)
    h, nh = reg.handler_n(F)
    ctx.fn(h)
    rd = reg.calls_to(nh, reg.locks(F).readers(DATA_T))
    okk, why = exactly_once(nh, [bb for bb, _ in rd])
    ctx.check(okk, rid, "one-guard", "exactly one read guard on the snapshot per delivery", h.span, why)
    lk = slot_lookup(F, nh)
    if len(lk) != 1:
        raise AnchorLost("dispatcher: expected exactly one HashMap<i32, Slot>::get, found %d" % len(lk))
    lbb, lt = lk[0]
    d = deps(nh, flow(nh).term_arg(lbb, 0))
    ctx.check(rd and ("call", rd[0][0]) in d, rid, "lookup-from-guard", "the slot lookup reads the map of the snapshot behind that guard", lt["sp"],
              sorted(str(x) for x in d)[:10])


def rule_b(ctx):
    F = ctx.F
    rid = "C02.b"
    ctx.rule(rid, "the lookup key is the dispatcher's own signal parameter; the action call sits in exactly one loop, once per iteration; the loop is "
                  "a forward iteration of the `actions` ordered map of the looked-up slot", floor=5)
    h, A = reg.handler_n(F)
    lk = slot_lookup(F, A)
    if len(lk) != 1:
        raise AnchorLost("dispatcher: expected exactly one HashMap<i32, Slot>::get, found %d" % len(lk))
    lbb, lt = lk[0]
    kd = deps(A, flow(A).term_arg(lbb, 1))
    ctx.check(("param", 1) in kd and not any(x[0] == "call" for x in kd) and not any(x[0] == "const" for x in kd), rid, "key-is-sig",
              "the lookup key is the handler's `sig` argument", lt["sp"], sorted(str(x) for x in kd))
    found = reg.action_calls(F, A)
    ctx.check(len(found) == 1, rid, "one-action-call-site", "one call site of the action type in the dispatcher (helpers and closures inlined)", h.span,
              [t["sp"] for _, t in found])
    if len(found) != 1:
        return
    abb, at = found[0]
    comps = [c for c in cfg.cycles(A) if abb in c]
    ctx.check(len(comps) == 1, rid, "action-in-loop", "the action call is inside exactly one loop", at["sp"], "not inside a loop" if not comps else "nested")
    if len(comps) != 1:
        return
    comp = comps[0]
    nexts = []
    for b in comp:
        t = A.term(b)
        if t["k"] == "call" and t.get("f") is not None:
            c = F.inst[t["f"]]
            if t.get("def") in ("core::iter::traits::iterator::Iterator::next", "core::iter::traits::double_ended::DoubleEndedIterator::next_back") \
                    or re.search(r"::(next|next_back|nth|nth_back)$", c.defp):
                nexts.append((b, t, c))
    fwd = [x for x in nexts if x[1].get("def") == "core::iter::traits::iterator::Iterator::next"]
    selfty = (fwd[0][1].get("targs") or [""])[0] if fwd else ""
    selfty = re.sub(r"^&mut ", "", selfty)
    okk = len(nexts) == 1 and len(fwd) == 1 and re.match(r"^alloc::collections::btree::map::(Values|Iter|Keys)<", selfty) is not None
    ctx.check(okk, rid, "forward-btree-iteration", "the loop is driven by Iterator::next on a B-tree map iterator (no Rev / next_back): %s" % selfty[:80],
              fwd[0][1]["sp"] if fwd else at["sp"], {"iterator_calls": [c.name[:160] for _, _, c in nexts]})
    if not fwd:
        return
    rest = set(comp) - {fwd[0][0]}
    again = False
    seen = set(); st = [s for s in A.succ(abb) if s in rest]
    while st:
        x = st.pop()
        if x == abb:
            again = True; break
        if x in seen:
            continue
        seen.add(x); st.extend(s for s in A.succ(x) if s in rest)
    ctx.check(not again, rid, "once-per-iteration", "the action is called once per iteration step", at["sp"], "the action call can repeat without advancing the iterator")
    itd = deps(A, flow(A).term_arg(fwd[0][0], 0))
    via_actions = any(x[0] == "field" and x[2] and "signal_hook_registry::Slot" in x[2] for x in itd)
    from_lookup = ("call", lbb) in itd
    adapters = []
    for x in itd:
        if x[0] == "call":
            t = A.term(x[1])
            if t.get("f") is not None and re.search(r"::(rev|skip|take|step_by|filter|skip_while|take_while|chain|zip)$", F.inst[t["f"]].defp):
                adapters.append(F.inst[t["f"]].defp)
    ctx.check(from_lookup and via_actions and not adapters, rid, "iterates-looked-up-slot",
              "the iterator is the ordered action map of the slot found for `sig` (no reordering/filtering adapter)", fwd[0][1]["sp"],
              {"from_lookup": from_lookup, "via_slot_field": via_actions, "adapters": adapters})
    cd = deps(A, flow(A).term_arg(abb, 0))
    ctx.check(("call", fwd[0][0]) in cd, rid, "calls-the-item", "the action invoked is the item yielded by that iterator", at["sp"], sorted(str(x) for x in cd)[:8])


def next_id_writes_in(m):
    """assignments to the `next_id` field of the snapshot type in one body: [(bb, stmt index, stmt)]"""
    out = []
    for bb, bl in enumerate(m.blocks):
        for si, s in enumerate(bl["s"]):
            if s["k"] != "assign" or not s["l"]["p"]:
                continue
            last = s["l"]["p"][-1]
            if last["k"] == "field" and last["n"] == "next_id" and DATA_T in (last.get("bt") or ""):
                out.append((bb, si, s))
    return out


def next_id_writes(F):
    """(raw functions) assignments to `next_id` anywhere in the registry crate: [(inst, bb, si, stmt)]"""
    out = []
    for i in F.inst:
        if i.body is None or not i.local or i.crate != "signal_hook_registry":
            continue
        for (bb, si, s) in next_id_writes_in(i):
            out.append((i, bb, si, s))
    return out


def registering(F):
    """public functions that can install the dispatcher: their normal form takes the dispatcher's address (for sigaction).
    [(fn item, instance, normal form)]"""
    h = handler(F)
    out = []
    for fn, i in reg.public_fns(F):
        n = reg.RN(F, i)
        if any(s["k"] == "assign" and s["r"]["k"] == "cast" and s["r"].get("fn") == h.id for bl in n.blocks for s in bl["s"]):
            out.append((fn, i, n))
    if not out:
        raise AnchorLost("registering functions (public functions whose normal form takes the dispatcher's address)")
    return out


def _peel(e):
    """`Struct{a, b}.field` -> the element: a value parked in a private struct keeps its identity"""
    e = deep_strip(e)
    for _ in range(8):
        if e[0] in ("ref", "cast", "deref"):
            e = deep_strip(e[1]); continue
        if e[0] == "field":
            b = deep_strip(e[1])
            while b[0] in ("ref", "deref"):
                b = deep_strip(b[1])
            if b[0] == "agg" and b[1][0] in ("adt", "tuple", "closure") and e[3] is not None and e[3] < len(b[2]):
                e = deep_strip(b[2][e[3]]); continue
        break
    return e


def _is_clone_of_snapshot(m, e):
    e = _peel(e)
    while e[0] in ("ref", "cast"):
        e = deep_strip(e[1])
    if e[0] != "call":
        return False
    t = m.term(e[1])
    return (t.get("def") or "").endswith("Clone::clone") and DATA_T in "".join(t.get("targs") or [])


def rule_c(ctx):
    F = ctx.F
    rid = "C02.c"
    ctx.rule(rid, "registration order = key order: the id comes from `next_id` of the cloned snapshot, the only write to `next_id` is old+1 on that "
                  "clone, the action is inserted under that id into an ordered map keyed by the id type", floor=4)
    slot = F.adt("signal_hook_registry::Slot")
    aty = [f["ty"] for f in slot["variants"][0]["fields"] if f["name"] == "actions"]
    ctx.check(bool(aty) and aty[0].startswith("alloc::collections::btree::map::BTreeMap<signal_hook_registry::ActionId,"), rid, "container",
              "Slot.actions is a BTreeMap keyed by ActionId", slot["span"], aty)
    ordimpl = [im for c, im in F.crate_items("impls") if im["trait"] == "core::cmp::Ord" and im["self"] == "signal_hook_registry::ActionId"]
    aid = F.adt("signal_hook_registry::ActionId")
    ctx.check(bool(ordimpl) and [f["ty"] for f in aid["variants"][0]["fields"]] == ["u128"], rid, "key-order", "ActionId is a newtype over u128 with derived Ord "
              "(numeric order)", aid["span"], {"ord_impls": len(ordimpl)})
    if not next_id_writes(F):
        raise AnchorLost("no write to next_id found")
    nw = 0
    for fn, i in reg.public_fns(F):
        n = reg.RN(F, i)
        fl = flow(n)
        for (bb, si, s) in next_id_writes_in(n):
            nw += 1
            ex = fl.rvalue(s["r"], (bb, si))
            okk = bool(ex)
            for e in ex:
                e = deep_strip(e)
                if not (e[0] == "binop" and e[1] in ("Add", "AddWithOverflow", "AddUnchecked") and fold(e[3]) == 1 and
                        deep_strip(e[2])[0] == "field" and deep_strip(e[2])[2] == "next_id"):
                    okk = False
            # written on a local clone, not through the published pointer
            pl = s["l"]
            owner = fl.place({"l": pl["l"], "p": pl["p"][:-1]}, (bb, si))      # the SignalData value whose next_id is written
            on_clone = bool(owner) and all(_is_clone_of_snapshot(n, e) for e in owner)
            if not on_clone and not any(p["k"] == "deref" for p in pl["p"]) and len(pl["p"]) == 1:
                on_clone = n.local_ty(pl["l"]) == DATA_T
            ctx.check(okk and on_clone, rid, "next_id:+1@%s" % keyname(i.name), "next_id is only ever set to old+1, on the local clone of the snapshot", s["sp"],
                      {"value": [show(e) for e in ex], "on_local_clone": on_clone})
    if not nw:
        raise AnchorLost("no public function writes next_id")
    for fn, r, n in registering(F):
        ctx.fn(r)
        ins = [(bb, t) for bb, t in n.calls() if t.get("f") is not None and re.match(r"^alloc::collections::btree::map::BTreeMap::<signal_hook_registry::ActionId, .*>::insert$", F.inst[t["f"]].name)]
        if not ins:
            raise AnchorLost("registration no longer inserts into the ordered action map")
        for bb, t in ins:
            kd = flow(n).term_arg(bb, 1)
            okk = bool(kd) and all(mentions(e, lambda x: x[0] == "field" and x[2] == "next_id") for e in kd)
            ctx.check(okk, rid, "insert-under-id@%s" % keyname(r.name), "the action is inserted under the id read from next_id", t["sp"], [show(e) for e in kd])


def _register_impls(F):
    """(raw functions, kept for rules that still need them) the registering function located by role"""
    h = handler(F)
    ins = [i for i in F.inst if i.body is not None and any(k == "reify" and t == h.id for (t, k, b) in F.edges(i))]
    out = {}
    for i in ins:
        for (cid, k, bb) in F.callers().get(i.id, []):
            c = F.inst[cid]
            if k == "call" and c.local and c.body is not None:
                out[c.id] = c
        if any((t.get("def") or "").endswith("HalfLock::<T>::write") for _, t in i.calls()):
            out[i.id] = i          # installer inlined into the registering function
    if not out:
        raise AnchorLost("registering function (caller of the function that installs the dispatcher)")
    return sorted(out.values(), key=lambda x: x.id)


def rule_d(ctx):
    F = ctx.F
    rid = "C02.d"
    ctx.rule(rid, "copy-on-write publish: the new snapshot is handed to the publishing call by value; the pointer is changed only by the swap; "
                  "no DerefMut on a guard type", floor=4)
    R = Roles(F)
    L = reg.locks(F)
    for T in (DATA_T, FB_T):
        for fn, i, n, sites_ in reg.mutators(F, T):
            for bb, t in sites_:
                a = t["args"][1]
                byval = a["k"] in ("move",) and not a["p"]["p"]
                ctx.check(byval, rid, "publish-by-value@%s" % keyname(i.name), "the snapshot is moved into the publishing call (cannot be touched afterwards)",
                          t["sp"], a)
    writes = []
    seen_w = set()
    for T in (DATA_T, FB_T):
        V = L.V[T]
        for r in V.roots:
            for s in sites(F, V.n[r.id]):        # normal forms of the lock's entry points: the pointer may sit behind a private newtype / Deref
                if on_field(s, R.ptr) and s.op not in ("load",) and (s.sp, s.op) not in seen_w:
                    seen_w.add((s.sp, s.op))
                    writes.append((r, s))
    ctx.check(writes and all(s.op == "swap" for _, s in writes), rid, "pointer-writes", "the snapshot pointer is written only by swap (%d site(s))" % len(writes), None,
              ["%s in %s" % (s.op, i.name) for i, s in writes])
    dm = [i.name for i in F.inst if re.match(r"^<signal_hook_registry::half_lock::(Write|Read)Guard<.*> as core::ops::deref::DerefMut>::deref_mut$", i.name)]
    dmi = [im for c, im in F.crate_items("impls") if im["trait"] == "core::ops::deref::DerefMut" and "half_lock" in im["self"]]
    ctx.check(not dm and not dmi, rid, "no-derefmut", "no DerefMut impl on the lock's guard types (a published snapshot cannot be mutated in place)", None, dm + [x["self"] for x in dmi])


def rule_e(ctx):
    """read-modify-write atomicity: the snapshot a mutator publishes is a modified clone of the data read through the very write guard it
    publishes with (one writer-lock critical section from the read to the publish) — otherwise a concurrent mutator's update is lost"""
    F = ctx.F
    rid = "C02.e"
    ctx.rule(rid, "copy-modify-publish happens inside one critical section of the writer lock: the value given to `store` derives from a clone whose "
                  "source was read through the same write guard", floor=2)
    L = reg.locks(F)
    wr = L.writers(DATA_T)
    muts = reg.mutators(F, DATA_T)
    for fn, i, m, sites_ in muts:
        ctx.fn(i)
        for bb, t in sites_:
            g = deps(m, flow(m).term_arg(bb, 0))
            writes = {x[1] for x in g if x[0] == "call" and m.term(x[1]).get("f") in wr}
            v = deps(m, flow(m).term_arg(bb, 1))
            clones = [x[1] for x in v if x[0] == "call" and (m.term(x[1]).get("def") or "").endswith("Clone::clone") and DATA_T in "".join(m.term(x[1]).get("targs") or [])]
            okk = False; src = []
            for c in clones:
                cd = deps(m, flow(m).term_arg(c, 0))
                src.append(sorted((m.term(x[1]).get("def") or "?").split("::")[-1] for x in cd if x[0] == "call"))
                if writes and any(("call", w) in cd for w in writes):
                    okk = True
            ctx.check(okk and len(writes) == 1, rid, "rmw-under-one-guard@%s" % keyname(i.name), "%s publishes a clone of the snapshot read through the same write guard"
                      % fn["path"].split("::")[-1], t["sp"], {"write_guards": len(writes), "clone_sources": src,
                                                              "consequence": "a registration/removal completed by another thread in between is silently undone"})
    kinds = {("reg" if any(i.id == r.id for _, r, _ in registering(F)) else "unreg") for fn, i, m, s_ in muts}
    if kinds != {"reg", "unreg"}:
        raise AnchorLost("publishing mutators found: %s (expected registering and removing ones)" % sorted(kinds))


def rule_f(ctx):
    """one registry operation = one published state: a public mutator publishes the snapshot at most once per call, never in a loop —
    otherwise a delivery can observe a state that is 'current' at no instant of the abstract history"""
    F = ctx.F
    rid = "C02.f"
    ctx.rule(rid, "every public mutator of the registry publishes the data snapshot at most once per call (no publish inside a loop, no second "
                  "publish reachable after the first), helpers and closures inlined", floor=2)
    from .util import at_most_once
    muts = reg.mutators(F, DATA_T)
    for fn, i, n, sites_ in muts:
        ok1, why = at_most_once(n, [bb for bb, _ in sites_])
        # a publish still hidden behind a call that was not inlined (recursion, depth): treat as unknown
        ctx.check(ok1, rid, "one-publish@%s" % keyname(i.name), "%s publishes at most one snapshot per call" % fn["path"].split("::")[-1], i.span,
                  {"why": why, "sites": [t["sp"] for _, t in sites_]})
    if len({fn["path"] for fn, _, _, _ in muts}) < 2:
        raise AnchorLost("public publishing mutators: %d" % len(muts))


def run(ctx):
    ctx.guarded("C02.f", rule_f)
    ctx.guarded("C02.e", rule_e)
    ctx.guarded("C02.a", rule_a)
    ctx.guarded("C02.b", rule_b)
    ctx.guarded("C02.c", rule_c)
    ctx.guarded("C02.d", rule_d)
    ctx.note("not decided: the linearizability statement itself (which registrations a concurrent delivery must / must not see)")
    ctx.assume("BTreeMap iteration yields keys in ascending order (std contract); safe Rust forbids touching a value after it was moved")


def action_calls(F, h):
    return reg.action_calls(F, h)
