"""C02 — each delivery runs exactly one consistent snapshot of the actions, in order (structural part)."""
import re
from .. import cfg
from ..anchors import handler, action_dyn, is_user_code, action_site
from ..atomics import sites
from ..facts import keyname, AnchorLost
from ..flow import flow, deps, deep_strip, strip, show, mentions, fold
from .util import call_sites, exactly_once
from .C01 import Roles, on_field, RG, WG

DATA_T = "signal_hook_registry::SignalData"


def data_reads(F, h):
    return [(bb, t) for bb, t in h.calls() if t.get("f") is not None and
            F.inst[t["f"]].name == "signal_hook_registry::half_lock::HalfLock::<%s>::read" % DATA_T]


def action_calls(F, h):
    d = action_dyn(F)
    return [(bb, t) for bb, t in h.calls() if t.get("f") is not None and F.inst[t["f"]].kind == "virtual" and F.inst[t["f"]].dyn == d]


def slot_lookup(F, h):
    """the call that looks the slot up in the per-signal map of the snapshot"""
    out = []
    for bb, t in h.calls():
        if t.get("f") is None:
            continue
        c = F.inst[t["f"]]
        if re.match(r"^std::collections::hash::map::HashMap::<i32, signal_hook_registry::Slot>::(get|get_key_value)::<", c.name):
            out.append((bb, t))
    return out


def rule_a(ctx):
    F = ctx.F
    rid = "C02.a"
    ctx.rule(rid, "the dispatcher takes exactly one read guard on the snapshot lock on every path, outside any loop; the slot lookup and the "
                  "iteration derive from that guard", floor=2)
    h = handler(F)
    ctx.fn(h)
    rd = data_reads(F, h)
    okk, why = exactly_once(h, [bb for bb, _ in rd])
    ctx.check(okk, rid, "one-guard", "exactly one read guard on the snapshot per delivery", h.span, why)
    lk = slot_lookup(F, h)
    if len(lk) != 1:
        raise AnchorLost("dispatcher: expected exactly one HashMap<i32, Slot>::get, found %d" % len(lk))
    lbb, lt = lk[0]
    d = deps(h, flow(h).term_arg(lbb, 0))
    ctx.check(rd and ("call", rd[0][0]) in d, rid, "lookup-from-guard", "the slot lookup reads the map of the snapshot behind that guard", lt["sp"],
              sorted(str(x) for x in d)[:10])
    return h, rd, lbb


def rule_b(ctx):
    F = ctx.F
    rid = "C02.b"
    ctx.rule(rid, "the lookup key is the dispatcher's own signal parameter; the action call sits in exactly one loop, once per iteration; the loop is "
                  "a forward iteration of the `actions` ordered map of the looked-up slot", floor=5)
    h = handler(F)
    lk = slot_lookup(F, h)
    lbb, lt = lk[0]
    kd = deps(h, flow(h).term_arg(lbb, 1))
    ctx.check(("param", 1) in kd and not any(x[0] == "call" for x in kd) and not any(x[0] == "const" for x in kd), rid, "key-is-sig",
              "the lookup key is the handler's `sig` argument", lt["sp"], sorted(str(x) for x in kd))
    h0, found = action_site(F)
    ctx.check(len(found) == 1, rid, "one-action-call-site", "one call site of the action type in the dispatcher (helpers included)", h.span,
              [t["sp"] for _, _, t, _ in found])
    if len(found) != 1:
        return
    A, abb, at, chain = found[0]
    ctx.fn(A)
    # a helper between the dispatcher and the loop is called exactly once, outside loops, and receives the looked-up slot
    src_local = None
    for (fm, cb) in chain:
        okk, why = exactly_once(fm, [cb]) if fm.id != h.id else (not cfg.in_cycle(fm, cb), "call in a loop")
        ctx.check(okk if fm.id != h.id else not cfg.in_cycle(fm, cb), rid, "helper-called-once@%s" % keyname(fm.name), "the helper running the actions is called once per delivery, outside loops",
                  fm.term(cb)["sp"], why)
    comps = [c for c in cfg.cycles(A) if abb in c]
    ctx.check(len(comps) == 1, rid, "action-in-loop", "the action call is inside exactly one loop", at["sp"], "not inside a loop" if not comps else "nested")
    if len(comps) != 1:
        return
    comp = comps[0]
    nexts = []
    for b in comp:
        t = A.term(b)
        if t["k"] == "call" and t.get("f") is not None:
            c = F.inst[t["f"]]
            if t.get("def") in ("core::iter::traits::iterator::Iterator::next", "core::iter::traits::double_ended::DoubleEndedIterator::next_back") \
                    or re.search(r"::(next|next_back|nth|nth_back)$", c.defp):
                nexts.append((b, t, c))
    fwd = [x for x in nexts if x[1].get("def") == "core::iter::traits::iterator::Iterator::next"]
    selfty = (fwd[0][1].get("targs") or [""])[0] if fwd else ""
    okk = len(nexts) == 1 and len(fwd) == 1 and re.match(r"^alloc::collections::btree::map::(Values|Iter|Keys)<", selfty) is not None
    ctx.check(okk, rid, "forward-btree-iteration", "the loop is driven by Iterator::next on a B-tree map iterator (no Rev / next_back): %s" % selfty[:80],
              fwd[0][1]["sp"] if fwd else at["sp"], {"iterator_calls": [c.name[:160] for _, _, c in nexts]})
    if not fwd:
        return
    rest = set(comp) - {fwd[0][0]}
    again = False
    seen = set(); st = [s for s in A.succ(abb) if s in rest]
    while st:
        x = st.pop()
        if x == abb:
            again = True; break
        if x in seen:
            continue
        seen.add(x); st.extend(s for s in A.succ(x) if s in rest)
    ctx.check(not again, rid, "once-per-iteration", "the action is called once per iteration step", at["sp"], "the action call can repeat without advancing the iterator")
    # iterator derives from `actions` of the looked-up slot, no reversing adapter anywhere on the way
    itd = deps(A, flow(A).term_arg(fwd[0][0], 0))
    via_actions = any(x[0] == "field" and x[2] and "signal_hook_registry::Slot" in x[2] for x in itd)
    if A.id == h.id:
        from_lookup = ("call", lbb) in itd
    else:
        # the slot reaches the helper as a parameter; follow the chain of calls back to the dispatcher's lookup
        params = {x[1] for x in itd if x[0] == "param"}
        from_lookup = False
        cur = params
        for (fm, cb) in reversed(chain):
            nxtp = set(); hit = False
            for pnum in cur:
                if pnum - 1 < len(fm.term(cb)["args"]):
                    dd = deps(fm, flow(fm).term_arg(cb, pnum - 1))
                    if fm.id == h.id and ("call", lbb) in dd:
                        hit = True
                    nxtp |= {x[1] for x in dd if x[0] == "param"}
            if hit:
                from_lookup = True
            cur = nxtp
    adapters = []
    for x in itd:
        if x[0] == "call":
            t = A.term(x[1])
            if t.get("f") is not None and re.search(r"::(rev|skip|take|step_by|filter|skip_while|take_while|chain|zip)$", F.inst[t["f"]].defp):
                adapters.append(F.inst[t["f"]].defp)
    ctx.check(from_lookup and via_actions and not adapters, rid, "iterates-looked-up-slot",
              "the iterator is the ordered action map of the slot found for `sig` (no reordering/filtering adapter)", fwd[0][1]["sp"],
              {"from_lookup": from_lookup, "via_slot_field": via_actions, "adapters": adapters})
    cd = deps(A, flow(A).term_arg(abb, 0))
    ctx.check(("call", fwd[0][0]) in cd, rid, "calls-the-item", "the action invoked is the item yielded by that iterator", at["sp"], sorted(str(x) for x in cd)[:8])


def next_id_writes(F):
    """assignments to the `next_id` field of the snapshot type anywhere in the registry crate"""
    out = []
    for i in F.inst:
        if i.body is None or not i.local or i.crate != "signal_hook_registry":
            continue
        for bb, bl in enumerate(i.blocks):
            for si, s in enumerate(bl["s"]):
                if s["k"] != "assign" or not s["l"]["p"]:
                    continue
                last = s["l"]["p"][-1]
                if last["k"] == "field" and last["n"] == "next_id" and DATA_T in (last.get("bt") or ""):
                    out.append((i, bb, si, s))
    return out


def rule_c(ctx):
    F = ctx.F
    rid = "C02.c"
    ctx.rule(rid, "registration order = key order: the id comes from `next_id` of the cloned snapshot, the only write to `next_id` is old+1 on that "
                  "clone, the action is inserted under that id into an ordered map keyed by the id type", floor=4)
    slot = F.adt("signal_hook_registry::Slot")
    aty = [f["ty"] for f in slot["variants"][0]["fields"] if f["name"] == "actions"]
    ctx.check(bool(aty) and aty[0].startswith("alloc::collections::btree::map::BTreeMap<signal_hook_registry::ActionId,"), rid, "container",
              "Slot.actions is a BTreeMap keyed by ActionId", slot["span"], aty)
    ordimpl = [im for c, im in F.crate_items("impls") if im["trait"] == "core::cmp::Ord" and im["self"] == "signal_hook_registry::ActionId"]
    aid = F.adt("signal_hook_registry::ActionId")
    ctx.check(bool(ordimpl) and [f["ty"] for f in aid["variants"][0]["fields"]] == ["u128"], rid, "key-order", "ActionId is a newtype over u128 with derived Ord "
              "(numeric order)", aid["span"], {"ord_impls": len(ordimpl)})
    ws = next_id_writes(F)
    if not ws:
        raise AnchorLost("no write to next_id found")
    for (i, bb, si, s) in ws:
        ex = flow(i).rvalue(s["r"], (bb, si))
        okk = True
        for e in ex:
            e = deep_strip(e)
            if not (e[0] == "binop" and e[1] in ("Add", "AddWithOverflow", "AddUnchecked") and fold(e[3]) == 1 and
                    deep_strip(e[2])[0] == "field" and deep_strip(e[2])[2] == "next_id"):
                okk = False
        # written on a local clone, not through the published pointer
        base_local = s["l"]["l"]
        on_clone = i.local_ty(base_local) == DATA_T and not any(p["k"] == "deref" for p in s["l"]["p"])
        ctx.check(okk and on_clone, rid, "next_id:+1@%s" % keyname(i.name), "next_id is only ever set to old+1, on the local clone of the snapshot", s["sp"],
                  {"value": [show(e) for e in ex], "on_local_clone": on_clone})
    for r in _register_impls(F):
        ctx.fn(r)
        ins = [(bb, t) for bb, t in r.calls() if t.get("f") is not None and re.match(r"^alloc::collections::btree::map::BTreeMap::<signal_hook_registry::ActionId, .*>::insert$", F.inst[t["f"]].name)]
        if not ins:
            raise AnchorLost("registration no longer inserts into the ordered action map")
        writes = [(bb, si) for (i, bb, si, s) in ws if i.id == r.id]
        for bb, t in ins:
            kd = flow(r).term_arg(bb, 1)
            okk = all(mentions(e, lambda x: x[0] == "field" and x[2] == "next_id") for e in kd)
            ctx.check(okk, rid, "insert-under-id@%s" % keyname(r.name), "the action is inserted under the id read from next_id", t["sp"], [show(e) for e in kd])


def _register_impls(F):
    """the registering function, located by role: the workspace function(s) that call the function which installs the dispatcher
    (the one taking the dispatcher's address for sigaction)"""
    h = handler(F)
    ins = [i for i in F.inst if i.body is not None and any(k == "reify" and t == h.id for (t, k, b) in F.edges(i))]
    out = {}
    for i in ins:
        for (cid, k, bb) in F.callers().get(i.id, []):
            c = F.inst[cid]
            if k == "call" and c.local and c.body is not None:
                out[c.id] = c
        if any((t.get("def") or "").endswith("HalfLock::<T>::write") for _, t in i.calls()):
            out[i.id] = i          # installer inlined into the registering function
    if not out:
        raise AnchorLost("registering function (caller of the function that installs the dispatcher)")
    return sorted(out.values(), key=lambda x: x.id)


def rule_d(ctx):
    F = ctx.F
    rid = "C02.d"
    ctx.rule(rid, "copy-on-write publish: the new snapshot is handed to the publishing call by value; the pointer is changed only by the swap; "
                  "no DerefMut on a guard type", floor=4)
    R = Roles(F)
    from .pub import publish_sites, is_forwarder
    for ci in F.inst:
        if ci.body is None or not ci.local or ci.crate != "signal_hook_registry":
            continue
        for T in (DATA_T, "core::option::Option<signal_hook_registry::Prev>"):
            if is_forwarder(F, ci, T):
                continue
            for bb, t, gi, vi in publish_sites(F, ci, T):
                a = t["args"][vi]
                byval = a["k"] in ("move",) and not a["p"]["p"]
                ctx.check(byval, rid, "publish-by-value@%s" % keyname(ci.name), "the snapshot is moved into the publishing call (cannot be touched afterwards)",
                          t["sp"], a)
    writes = []
    for i in F.inst:
        if i.body is None or not i.local or i.crate != "signal_hook_registry":
            continue
        for s in sites(F, i):
            if on_field(s, R.ptr) and s.op not in ("load",):
                writes.append((i, s))
    ctx.check(writes and all(s.op == "swap" for _, s in writes), rid, "pointer-writes", "the snapshot pointer is written only by swap (%d site(s))" % len(writes), None,
              ["%s in %s" % (s.op, i.name) for i, s in writes])
    dm = [i.name for i in F.inst if re.match(r"^<signal_hook_registry::half_lock::(Write|Read)Guard<.*> as core::ops::deref::DerefMut>::deref_mut$", i.name)]
    dmi = [im for c, im in F.crate_items("impls") if im["trait"] == "core::ops::deref::DerefMut" and "half_lock" in im["self"]]
    ctx.check(not dm and not dmi, rid, "no-derefmut", "no DerefMut impl on the lock's guard types (a published snapshot cannot be mutated in place)", None, dm + [x["self"] for x in dmi])


def rule_e(ctx):
    """read-modify-write atomicity: the snapshot a mutator publishes is a modified clone of the data read through the very write guard it
    publishes with (one writer-lock critical section from the read to the publish) — otherwise a concurrent mutator's update is lost"""
    F = ctx.F
    rid = "C02.e"
    ctx.rule(rid, "copy-modify-publish happens inside one critical section of the writer lock: the value given to `store` derives from a clone whose "
                  "source was read through the same write guard", floor=3)
    n = 0
    for m in F.inst:
        if m.body is None or not m.local or m.crate != "signal_hook_registry":
            continue
        from .pub import publish_sites, is_forwarder
        if is_forwarder(F, m, DATA_T):
            continue        # a pure forwarding helper: its callers are the publish sites
        for bb, t, gi, vi in publish_sites(F, m, DATA_T):
            n += 1
            ctx.fn(m)
            g = deps(m, flow(m).term_arg(bb, gi))
            writes = {x[1] for x in g if x[0] == "call" and (m.term(x[1]).get("def") or "").endswith("HalfLock::<T>::write")}
            v = deps(m, flow(m).term_arg(bb, vi))
            clones = [x[1] for x in v if x[0] == "call" and (m.term(x[1]).get("def") or "").endswith("Clone::clone") and DATA_T in "".join(m.term(x[1]).get("targs") or [])]
            okk = False; src = []
            for c in clones:
                cd = deps(m, flow(m).term_arg(c, 0))
                src.append(sorted((m.term(x[1]).get("def") or "?").split("::")[-1] for x in cd if x[0] == "call"))
                if writes and any(("call", w) in cd for w in writes):
                    okk = True
            ctx.check(okk and len(writes) == 1, rid, "rmw-under-one-guard@%s" % keyname(m.name), "%s publishes a clone of the snapshot read through the same write guard"
                      % m.name.split("::")[-1].split("<")[0], t["sp"], {"write_guards": len(writes), "clone_sources": src,
                                                                       "consequence": "a registration/removal completed by another thread in between is silently undone"})
    if n < 3:
        raise AnchorLost("publishing mutators found: %d" % n)


def rule_f(ctx):
    """one registry operation = one published state: a public mutator publishes the snapshot at most once per call, never in a loop —
    otherwise a delivery can observe a state that is 'current' at no instant of the abstract history"""
    F = ctx.F
    rid = "C02.f"
    ctx.rule(rid, "every public mutator of the registry publishes the data snapshot at most once per call (no publish inside a loop, no second "
                  "publish reachable after the first), directly or through callees", floor=3)
    stores = {i.id for i in F.inst if i.name == "signal_hook_registry::half_lock::WriteGuard::<'_, %s>::store" % DATA_T}
    if not stores:
        raise AnchorLost("publishing store")
    pubs_memo = {}

    def publishes(fid):
        if fid not in pubs_memo:
            pubs_memo[fid] = fid in stores or bool(set(F.reach([F.inst[fid]], stop=lambda x: x.id in stores and x.id != fid)) & stores)
        return pubs_memo[fid]
    n = 0
    for c, fn in F.crate_items("fns"):
        if c != "signal_hook_registry" or not fn["pub"] or fn["kind"] != "Fn":
            continue
        for m in [i for i in F.inst if i.defp == fn["path"] and i.body is not None]:
            # walk down through workspace frames until the frames that contain publish sites
            frames = [m] + [F.inst[x] for x in F.reach([m], stop=lambda x: x.id in stores) if F.inst[x].local and F.inst[x].body is not None and x != m.id and F.inst[x].crate == "signal_hook_registry"]
            bad = []
            any_pub = False
            for f in frames:
                sites_ = [bb for bb, t in f.calls() if t.get("f") is not None and publishes(t["f"])]
                if not sites_:
                    continue
                any_pub = True
                from .util import at_most_once
                ok1, why = at_most_once(f, sites_)
                if not ok1:
                    bad.append({"in": f.name, "why": why, "sites": [f.term(b)["sp"] for b in sites_]})
                for b in sites_:
                    cal = F.inst[f.term(b)["f"]]
                    if not cal.local and re.search(r"core::iter::|::slice::iter::|alloc::vec::into_iter::", cal.defp):
                        bad.append({"in": f.name, "why": "publish reachable through the iterator adapter `%s` (runs once per element)" % cal.defp.split("::")[-1],
                                    "sites": [f.term(b)["sp"]]})
            if any_pub:
                n += 1
                ctx.check(not bad, rid, "one-publish@%s" % keyname(m.name), "%s publishes at most one snapshot per call" % fn["path"].split("::")[-1], m.span, bad)
    if n < 3:
        raise AnchorLost("public publishing mutators: %d" % n)


def run(ctx):
    ctx.guarded("C02.f", rule_f)
    ctx.guarded("C02.e", rule_e)
    ctx.guarded("C02.a", rule_a)
    ctx.guarded("C02.b", rule_b)
    ctx.guarded("C02.c", rule_c)
    ctx.guarded("C02.d", rule_d)
    ctx.note("not decided: the linearizability statement itself (which registrations a concurrent delivery must / must not see)")
    ctx.assume("BTreeMap iteration yields keys in ascending order (std contract); safe Rust forbids touching a value after it was moved")
