"""C11 — close() is sticky, unblocks every consumer, and never strands an async poller."""
import re
from .. import cfg
from ..atomics import sites, recv_field
from ..conds import facts_at, truth
from ..effects import Cone
from ..facts import keyname, AnchorLost
from ..flow import flow, deps, deep_strip, strip, show, mentions, fold
from .util import call_sites, foreign
from .iterc import insts, poll_signals, callback_calls, delegating_calls, exf_of, BE

DS = "signal_hook::iterator::backend::DeliveryState"
PR = "signal_hook::iterator::backend::PollResult"
MSG_DONTWAIT = 0x40


def rule_a(ctx):
    F = ctx.F
    rid = "C11.a"
    ctx.rule(rid, "sticky: every atomic write to the `closed` flag stores the constant true", floor=1)
    n = 0
    for i in F.inst:
        if i.body is None or not i.local:
            continue
        for s in sites(F, i):
            bt, f = recv_field(s)
            if f == "closed" and bt and DS in bt and s.op != "load":
                n += 1
                v = [fold(e) for e in flow(i).term_arg(s.bb, 1)] if s.op in ("store", "swap", "fetch_or") else None
                ctx.check(s.op in ("store", "swap", "fetch_or") and v == [1], rid, "closed-write@%s" % keyname(i.name), "`closed` is only ever set to true (%s in %s)" % (s.op, i.name.split("::")[-1]), s.sp,
                          {"op": s.op, "value": v})
    if n == 0:
        raise AnchorLost("no write to the closed flag")
    # ... and an instance starts out open
    from .util import adt_constructions
    nc = 0
    for i in F.inst:
        if i.body is None or not i.local or i.crate != "signal_hook":
            continue
        for (bb, si, rv) in adt_constructions(i, DS):
            if "closed" not in rv["fields"]:
                continue
            nc += 1
            fl = flow(i)
            vals = []
            for e in fl.operand(rv["ops"][rv["fields"].index("closed")], (bb, si)):
                e = deep_strip(e)
                if e[0] == "call" and re.search(r"atomic::Atomic::<bool>::new$", i.term(e[1]).get("def") or ""):
                    vals += [fold(a) for a in fl.term_arg(e[1], 0)]
                elif e[0] == "call" and (i.term(e[1]).get("def") or "").endswith("::default"):
                    vals.append(0)
                else:
                    vals.append(show(e)[:80])
            ctx.check(bool(vals) and all(v == 0 for v in vals), rid, "closed-starts-false@%s" % keyname(i.name), "a new instance starts with `closed` = false", rv.get("sp") or i.span,
                      {"initial": vals})
    if nc == 0:
        raise AnchorLost("construction of the delivery state (initial value of the closed flag)")


def rule_f(ctx):
    """the async adapters' readiness callbacks keep poll_signal's contract: `false` ("nothing to read, come back when woken") is answered only
    when the reactor's poll_read returned Pending — i.e. a waker is armed — and a Ready outcome never maps to the constant `false`.
    (poll_signal answers Pending after a `false`; with no waker armed the task sleeps for ever, also through a later close().)"""
    F = ctx.F
    rid = "C11.f"
    ctx.rule(rid, "async adapters: the readiness callback answers Ok(false) exactly on Poll::Pending of the underlying poll_read (waker armed); "
                  "Poll::Ready never maps to the constant false", floor=2)
    from .. import inline
    from ..conds import switch_edges
    from ..flow import infeasible
    n_cb = 0
    for i in F.inst:
        if not (i.local and i.body is not None and i.crate in ("signal_hook_tokio", "signal_hook_async_std")):
            continue
        if not i.local_ty(0).startswith("core::result::Result<bool,"):
            continue
        n = inline.cached(F, i, keep=lambda c: False, tag="c11f", hof=True, thread=True)
        reads = [(bb, t) for bb, t in n.calls() if re.search(r"::poll_read$", (t.get("def") or "")) and not n.blocks[bb].get("dead")]
        if len(reads) != 1:
            continue
        n_cb += 1
        ctx.fn(i)
        rb, rt = reads[0]
        pend, ready = set(), set()
        for (b2, tgt, lab, exprs, t2) in switch_edges(n):
            ex = [deep_strip(e) for e in exprs]
            if not ex or not all(e[0] == "discr" and deep_strip(e[1])[0] == "call" and deep_strip(e[1])[1] == rb for e in ex):
                continue
            vals = [v for v, _ in t2["vals"]]
            is_pending = lab == "sw:1" or (not lab.startswith("sw:") and 1 not in vals)
            (pend if is_pending else ready).add((b2, tgt))
        key = keyname(i.name)
        if not pend or not ready:
            ctx.bad(rid, "callback:%s" % key, "the outcome of poll_read is not distinguished (Pending vs Ready)", rt["sp"]); continue

        def returns(cut):
            n2 = inline.assuming(F, n, cut)
            fl2 = flow(n2)
            live = cfg.reachable(n2, 0, unwind=False)
            return [deep_strip(e) for x in n2.exits() if x in live and not n2.blocks[x].get("dead")
                    for e in fl2.place({"l": 0, "p": []}, (x, len(n2.stmts(x)))) if not infeasible(e)]

        def ok_const(e):
            """Ok(<constant bool>) -> 0/1, else None"""
            if e[0] == "agg" and e[1][0] == "adt" and e[1][2] == "Ok" and len(e[2]) == 1:
                return fold(e[2][0])
            return None
        on_pending = returns(ready)          # Ready edges assumed away
        on_ready = returns(pend)
        ctx.check(bool(on_pending) and all(ok_const(e) == 0 for e in on_pending), rid, "callback:%s:pending-is-false" % key,
                  "Poll::Pending (waker armed) is reported as Ok(false)", rt["sp"], [show(e)[:80] for e in on_pending][:4])
        def bad_count_test(e):
            """Ok(<count> cmp k) that is false for a count of 1 (`> 1`, `== 0`, ..): one byte read must count as readable"""
            if not (e[0] == "agg" and e[1][0] == "adt" and e[1][2] == "Ok" and len(e[2]) == 1):
                return False
            c = deep_strip(e[2][0])
            if c[0] != "binop" or c[1] not in ("Gt", "Ge", "Lt", "Le", "Eq", "Ne"):
                return False
            k = fold(c[3]); op = c[1]
            if k is None:
                k = fold(c[2]); op = {"Gt": "Lt", "Lt": "Gt", "Ge": "Le", "Le": "Ge"}.get(op, op)
            if k is None:
                return False
            one = {"Gt": 1 > k, "Ge": 1 >= k, "Lt": 1 < k, "Le": 1 <= k, "Eq": 1 == k, "Ne": 1 != k}[op]
            return not one
        ctx.check(bool(on_ready) and not any(ok_const(e) == 0 or bad_count_test(e) for e in on_ready), rid, "callback:%s:ready-is-not-false" % key,
                  "Poll::Ready (no waker armed) is never reported as Ok(false): not as a constant, and a byte count of 1 tests as readable", rt["sp"], [show(e)[:80] for e in on_ready][:4])
    if n_cb < 2:
        raise AnchorLost("readiness callbacks of the tokio / async-std adapters (functions returning Result<bool, _> around one poll_read): found %d" % n_cb)


def rule_b(ctx):
    F = ctx.F
    rid = "C11.b"
    ctx.rule(rid, "close(): the flag store dominates the wake of the self-pipe (a woken consumer must see the flag)", floor=1)
    c0 = F.one("signal_hook::iterator::backend::Handle::close")
    ctx.fn(c0)
    from .nf import NF
    c = NF(F, c0)
    st = [s for s in sites(F, c) if s.op in ("store", "swap", "fetch_or", "compare_exchange") and recv_field(s)[1] == "closed"]
    from .C09 import wake_calls
    wk = [bb for bb, t in wake_calls(F, c)]
    dom = cfg.dominators(c)
    okk = len(st) == 1 and len(wk) >= 1 and all(st[0].bb in dom[w] and st[0].bb != w for w in wk)
    ctx.check(okk, rid, "close:store-before-wake", "close stores the flag before waking the readers", c0.span, {"stores": len(st), "wakes": len(wk)})
    ex = cfg.reachable(c, 0, avoid=set(wk), unwind=False) & set(c.exits())
    ctx.check(not ex, rid, "close:always-wakes", "close wakes the readers on every path", c0.span, None)


def rule_c(ctx):
    F = ctx.F
    rid = "C11.c"
    ctx.rule(rid, "Pending => callback consulted: on every path of poll_signal that constructs PollResult::Pending the readiness callback was called in "
                  "that invocation and answered Ok(false); a delegate receiving the callback must call it on every one of its paths; in each adapter "
                  "Poll::Pending is returned only from the PollResult::Pending arm", floor=5)
    pr = F.adt(PR)
    vidx = {v["name"]: i for i, v in enumerate(pr["variants"])}
    for m in poll_signals(F):
        ctx.fn(m)
        fl = flow(m)
        key = "poll_signal<%s>" % exf_of(m.name)
        pend = [(bb, si, s) for bb, bl in enumerate(m.blocks) for si, s in enumerate(bl["s"])
                if s["k"] == "assign" and s["r"]["k"] == "aggregate" and s["r"].get("def") == PR and s["r"]["variant"] == "Pending"]
        if not pend:
            ctx.ok(rid, key + ":no-pending", "poll_signal never reports Pending", m.span); continue
        cbs = callback_calls(F, m)
        dels = delegating_calls(F, m)
        for (bb, si, s) in pend:
            facts = facts_at(m, bb)
            direct = False
            for cb, ct in cbs:
                is_ok = any(ce[0] == "discr" and strip(ce[1]) [0] == "call" and strip(ce[1])[1] == cb and inf == ("eq", 0) for (ce, inf, b) in facts)
                is_false = any(ce[0] == "field" and mentions(ce, lambda x: x[0] == "call" and x[1] == cb) and truth(inf) is False for (ce, inf, b) in facts)
                if is_ok and is_false:
                    direct = True
            via = None
            if not direct:
                for (dbb, dt, dc, ai) in dels:
                    if any(mentions(ce, lambda x: x[0] == "call" and x[1] == dbb) for (ce, inf, b) in facts):
                        # callee summary: every entry->return path of the delegate passes through a callback call
                        inner = callback_calls(F, dc, param=ai + 1)
                        blocks = {b for b, _ in inner}
                        r = cfg.reachable(dc, 0, avoid=blocks, unwind=False)
                        skip = sorted(r & set(dc.exits()))
                        via = {"delegate": dc.name, "callback_calls_in_delegate": len(inner),
                               "path_returning_without_consulting_callback": cfg.path(dc, 0, skip[0], avoid=blocks, unwind=False) if skip else None,
                               "where": [dc.term(b)["sp"] for b in (cfg.path(dc, 0, skip[0], avoid=blocks, unwind=False) or [])[-2:]] if skip else None}
                        if inner and not skip:
                            direct = True
            ctx.check(direct, rid, key + ":pending-after-callback-false", "PollResult::Pending is constructed only on the callback's Ok(false) branch", s["sp"],
                      {"facts": [(show(c), i) for c, i, _ in facts][:6], "via_delegate": via,
                       "consequence": "an async task gets Poll::Pending with no armed waker"})
        # the callback is consulted only while not closed (same iteration) — a poll that starts after close returns Closed
        for cb, ct in cbs:
            notclosed = any(ce[0] == "call" and (ce[3] or "").endswith("Handle::is_closed") and truth(inf) is False for (ce, inf, b) in facts_at(m, cb))
            ctx.check(notclosed, rid, key + ":callback-only-if-open", "the (possibly blocking) callback is consulted only after is_closed() returned false in that iteration", ct["sp"], None)
    # adapters
    n = 0
    for i in F.inst:
        if not (i.local and i.body is not None) or not re.search(r" as futures_core::stream::Stream>::poll_next$| as futures_lite::stream::Stream>::poll_next$|Stream>::poll_next$", i.name):
            continue
        if i.crate not in ("signal_hook_tokio", "signal_hook_async_std"):
            continue
        n += 1
        ctx.fn(i)
        ps = [bb for bb, t in i.calls() if (t.get("def") or "").endswith("SignalIterator::<SD, E>::poll_signal")]
        for bb, bl in enumerate(i.blocks):
            for si, s in enumerate(bl["s"]):
                if s["k"] == "assign" and s["r"]["k"] == "aggregate" and s["r"].get("def") == "core::task::poll::Poll" and s["r"]["variant"] == "Pending":
                    facts = facts_at(i, bb)
                    okk = any(ce[0] == "discr" and strip(ce[1])[0] == "call" and strip(ce[1])[1] in ps and inf == ("eq", vidx["Pending"]) for (ce, inf, b) in facts)
                    ctx.check(okk, rid, "adapter:%s<%s>" % (i.crate, exf_of(i.name)), "%s returns Poll::Pending only from the PollResult::Pending arm" % i.crate, s["sp"],
                              [(show(c), inf) for c, inf, _ in facts])
    if n < 2:
        raise AnchorLost("adapter poll_next instances (tokio, async-std): %d" % n)


def rule_d(ctx):
    F = ctx.F
    rid = "C11.d"
    ctx.rule(rid, "after close nothing blocks: poll_pending consults the callback only when not closed; wait()'s closed arm and the drain use only "
                  "non-blocking calls (every recv in the workspace carries MSG_DONTWAIT)", floor=4)
    for m in insts(F, r"^signal_hook::iterator::backend::SignalDelivery::<.*>::poll_pending::<", "poll_pending", 1):
        ctx.fn(m)
        for cb, ct in callback_calls(F, m):
            notclosed = any(ce[0] == "call" and (ce[3] or "").endswith("Handle::is_closed") and truth(inf) is False for (ce, inf, b) in facts_at(m, cb))
            ctx.check(notclosed, rid, "poll_pending<%s>:callback-only-if-open" % exf_of(m.name), "poll_pending calls the (blocking) callback only after is_closed() returned false",
                      ct["sp"], None)
    n = 0
    for i in F.inst:
        if i.body is None or not i.local:
            continue
        for (bb, t, c) in call_sites(F, i, lambda c: c.kind == "foreign" and c.symbol in ("recv", "recvfrom", "recvmsg", "read")):
            if i.crate not in ("signal_hook", "signal_hook_registry"):
                continue
            n += 1
            if c.symbol == "read":
                ctx.bad(rid, "blocking-read@%s" % keyname(i.name), "raw read() on the self-pipe in the workspace (would block after close)", t["sp"]); continue
            fl = [fold(e) for e in flow(i).term_arg(bb, 3)]
            ctx.check(fl and all(v is not None and v & MSG_DONTWAIT for v in fl), rid, "recv-dontwait@%s" % keyname(i.name), "recv carries MSG_DONTWAIT (the drain never blocks)", t["sp"], fl)
    if n == 0:
        raise AnchorLost("no recv() call found (drain primitive)")
    for w in insts(F, r"^signal_hook::iterator::SignalsInfo::(<.*>::)?wait$", "SignalsInfo::wait", 1):
        ctx.fn(w)
        pp = [bb for bb, t in w.calls() if (t.get("def") or "").endswith("::poll_pending")]
        # on the Ok(None) arm only `pending` is called
        bad = []
        for bb, t in w.calls():
            if t.get("f") is None or bb in pp:
                continue
            c = F.inst[t["f"]]
            facts = facts_at(w, bb)
            on_none = any(ce[0] == "discr" and mentions(ce, lambda x: x[0] == "downcast" and x[2] == "Ok") and inf == ("eq", 0) for (ce, inf, b) in facts)
            if on_none and c.local and not c.defp.endswith("::pending"):
                bad.append(c.name)
        ctx.check(not bad, rid, "wait<%s>:closed-arm-nonblocking" % exf_of(w.name), "wait()'s closed arm calls only the non-blocking pending()", w.span, bad)


def rule_e(ctx):
    """close() = set flag, then write ONE wake-up byte. A drain can swallow that byte, so after every drain the flag must be looked at
    again before the consumer may block/park in the readiness callback."""
    F = ctx.F
    rid = "C11.e"
    ctx.rule(rid, "on every path from a drain of the self-pipe to the (possibly blocking) readiness callback the closed flag is re-checked", floor=3)
    recv_users = {i.id for i in F.inst if i.local and i.body is not None and i.crate == "signal_hook" and call_sites(F, i, foreign("recv"))}
    if not recv_users:
        raise AnchorLost("drain primitive")
    drains_memo = {}

    def drains(fid):
        if fid not in drains_memo:
            drains_memo[fid] = bool(set(F.reach([F.inst[fid]])) & recv_users)
        return drains_memo[fid]
    fns = poll_signals(F) + insts(F, r"^signal_hook::iterator::backend::SignalDelivery::<.*>::poll_pending::<", "poll_pending", 1)
    for m in fns:
        ctx.fn(m)
        cbs = [bb for bb, t in callback_calls(F, m)] + [bb for (bb, t, c, ai) in delegating_calls(F, m)]
        dr = [bb for bb, t in m.calls() if t.get("f") is not None and F.inst[t["f"]].local and drains(t["f"]) and bb not in cbs]
        chk = [bb for bb, t in m.calls() if (t.get("def") or "").endswith("Handle::is_closed")]
        bad = []
        for d in dr:
            r = cfg.reachable_after(m, d, avoid=set(chk), unwind=False, labels=["ret"])
            hit = sorted(r & set(cbs))
            if hit:
                bad.append({"drain": m.term(d)["sp"], "callback_reached_without_recheck": m.term(hit[0])["sp"]})
        nm = "poll_signal" if "poll_signal" in m.name else "poll_pending"
        ctx.check(not bad, rid, "%s<%s>:recheck-closed-after-drain" % (nm, exf_of(m.name)), "%s never goes from a drain to the readiness callback without re-reading the closed flag" % nm,
                  m.span, {"paths": bad, "why": "the drain may have eaten close()'s only wake-up byte: the consumer would block / park forever although is_closed() is true"})


def run(ctx):
    ctx.guarded("C11.e", rule_e)
    ctx.guarded("C11.a", rule_a)
    ctx.guarded("C11.b", rule_b)
    ctx.guarded("C11.c", rule_c)
    ctx.guarded("C11.d", rule_d)
    ctx.guarded("C11.f", rule_f)
    ctx.note("not decided: liveness under all schedules (that the wake-up byte is actually delivered by the kernel); the runtime's waker contract")
    ctx.assume("a poll_read that returned Poll::Pending has armed a wake-up (contract of the async runtimes); C11.f checks that the adapters answer Ok(false) only then")
