"""C07 — channel cells are never accessed concurrently; values dropped exactly once (structural part)."""
import re
from .. import cfg
from ..atomics import sites, at_least, recv_field
from ..conds import facts_at, truth
from ..effects import Cone
from ..facts import keyname, AnchorLost
from ..flow import flow, deps, deep_strip, strip, show, mentions, fold
from .util import call_sites, escapes, closure_constructions

from .chan import CH, PAYLOAD, roles, method, CN, PN, word_calls, word_of, cell_accesses, is_take, is_give, primitives


def uncast(e):
    e = deep_strip(e)
    while e[0] == "cast":
        e = deep_strip(e[1])
    return e


def analyse_op(ctx, F, rid, m0, m, words, cells, opname=""):
    """m: normal form of send / recv (helpers and closures inlined, queue-word primitives kept as calls)"""
    acc = cell_accesses(F, m, cells)
    key = "%s:" % opname
    if len(acc) != 1:
        ctx.bad(rid, key + "one-cell-access", "%s: expected exactly one cell access, found %d" % (opname, len(acc)), m0.span); return None
    abb, at, idx = acc[0]
    wc = word_calls(F, m, words)
    takes = [(bb, t, c, w) for (bb, t, c, w) in wc if is_take(c)]
    if len(takes) != 1:
        ctx.bad(rid, key + "one-take", "%s: expected one take from a queue word, found %d" % (opname, len(takes)), m0.span); return None
    tbb, tt, take_fn, take_word = takes[0]

    PURE = re.compile(r"^core::num::nonzero::NonZero::<\w+>::get$|^<\w+ as core::convert::From<.*>>::from$|^<\w+ as core::convert::Into<.*>>::into$|"
                      r"^core::num::<impl \w+>::(get|into)$")

    def taken_value(e, depth=0):
        """is e the index the successful take handed out — `(take as Some).0`, possibly unwrapped from a private newtype (fields, NonZero::get,
        lossless conversions), with no arithmetic on the way?"""
        e = uncast(e)
        if depth > 8:
            return False
        if e[0] in ("ref", "deref"):
            return taken_value(e[1], depth + 1)
        if e[0] == "call" and e[1] != tbb:
            t_ = m.term(e[1])
            cal = F.inst[t_["f"]].name if t_.get("f") is not None else ""
            if PURE.match(cal) and t_["args"]:
                a = flow(m).term_arg(e[1], 0)
                return bool(a) and all(taken_value(x, depth + 1) for x in a)
            return False
        if e[0] != "field":
            return False
        b = uncast(e[1])
        while b[0] in ("ref", "deref"):
            b = uncast(b[1])
        if b[0] == "downcast" and b[2] == "Some":
            c = uncast(b[1])
            return c[0] == "call" and c[1] == tbb
        return taken_value(b, depth + 1)        # a field of the wrapper the take returned

    def success_fact(facts):
        for (ce, inf, sb) in facts:
            if ce[0] != "discr":
                continue
            c = uncast(ce[1])
            if c[0] == "call" and c[1] == tbb and (inf == ("eq", 1) or (inf[0] == "ne" and 0 in inf[1] and len(inf[1]) == 1)):
                return True
        return False
    d = deps(m, [idx])
    from_take = ("call", tbb) in d
    on_some = success_fact(facts_at(m, abb))
    ctx.check(from_take and on_some, rid, key + "index-from-successful-take", "%s: the cell index derives from a successful take from `%s`" % (opname, take_word), at["sp"],
              {"index": show(idx), "derives_from_take": from_take, "on_success_branch": on_some})
    CONV = ("core::num::nonzero::NonZero::<T>::get", "core::convert::From::from", "core::convert::Into::into")
    atoms = {x for x in deps(m, [idx], follow=lambda dd: dd in CONV) if x[0] in ("call", "param")}
    atoms = {x for x in atoms if not (x[0] == "call" and (m.term(x[1]).get("def") or "") in CONV)}
    only_v = atoms <= {("call", tbb)}
    ctx.check(only_v, rid, key + "cell-index-only-from-take", "%s: the cell index depends on the taken index and constants only" % opname, at["sp"], sorted(map(str, atoms)))
    gives = [(bb, t, c, w) for (bb, t, c, w) in wc if is_give(t)]
    good = []
    for (gbb, gt, gc, gw) in gives:
        ga = flow(m).term_arg(gbb, 1)
        if ga and all(taken_value(e) for e in ga):
            good.append((gbb, gt, gc, gw))
    r = cfg.reachable_after(m, abb, avoid={g[0] for g in good}, unwind=False)
    leaks = bool(r & set(m.exits()))
    other = {g[3] for g in good}
    ctx.check(good and not leaks, rid, key + "index-given-back", "%s: every path from the cell access to return hands the same index to a queue word" % opname, at["sp"],
              {"give_calls": [g[1]["sp"] for g in good], "leaking_path": leaks})
    ctx.check(other and take_word not in other and len(other) == 1, rid, key + "to-the-other-queue", "%s: taken from `%s`, given to `%s`" % (opname, take_word, sorted(other)), at["sp"],
              {"taken_from": take_word, "given_to": sorted(other)})
    # nothing derived from the cell pointer is used once the index has been handed back (the cell may already belong to someone else)
    cell_locals = set()
    changed = True
    dest = m.term(abb).get("dest")
    if dest and not dest["p"]:
        cell_locals.add(dest["l"])
    while changed:
        changed = False
        for bl in m.blocks:
            for st in bl["s"]:
                if st["k"] == "assign" and not st["l"]["p"] and st["l"]["l"] not in cell_locals and _uses(st["r"], cell_locals) and \
                        ("&" in m.local_ty(st["l"]["l"]) or "*" in m.local_ty(st["l"]["l"])):
                    cell_locals.add(st["l"]["l"]); changed = True
            t = bl["t"]
            if t["k"] == "call" and t.get("dest") and not t["dest"]["p"] and t["dest"]["l"] not in cell_locals \
                    and any(_op_uses(a, cell_locals) for a in t["args"]) and ("&" in m.local_ty(t["dest"]["l"]) or "*" in m.local_ty(t["dest"]["l"])):
                cell_locals.add(t["dest"]["l"]); changed = True
    late = []
    for (gbb, gt, gc, gw) in good:
        for b in cfg.reachable_after(m, gbb, unwind=False, labels=["ret"]):
            bl = m.blocks[b]
            for st in bl["s"]:
                if st["k"] == "assign" and (_uses(st["r"], cell_locals) or any(p["k"] == "deref" for p in st["l"]["p"]) and st["l"]["l"] in cell_locals):
                    late.append(st["sp"])
            t = bl["t"]
            if t["k"] == "call" and any(_op_uses(a, cell_locals) for a in t["args"]):
                late.append(t["sp"])
            if t["k"] == "drop" and t["p"]["l"] in cell_locals and any(p["k"] == "deref" for p in t["p"]["p"]):
                late.append(t["sp"])
    ctx.check(not late, rid, key + "no-cell-use-after-give", "%s: the cell is not touched after its index was handed back" % opname, at["sp"],
              {"uses_after_give": sorted(set(late))[:4], "why": "once the index is on a queue another send/recv may own the cell"})
    give_fns = {g[2].id for g in good}
    return take_fn, take_word, give_fns, sorted(other)[0] if other else None, abb


def _op_uses(o, locs):
    return o.get("k") in ("copy", "move") and o["p"]["l"] in locs


def _uses(rv, locs):
    k = rv["k"]
    if k == "use":
        return _op_uses(rv["o"], locs)
    if k in ("ref", "rawptr", "discr"):
        return rv["p"]["l"] in locs
    if k == "cast":
        return _op_uses(rv["o"], locs)
    if k == "binop":
        return _op_uses(rv["a"], locs) or _op_uses(rv["b"], locs)
    if k == "unop":
        return _op_uses(rv["a"], locs)
    if k == "aggregate":
        return any(_op_uses(o, locs) for o in rv["ops"])
    return False


def rule_a(ctx):
    F = ctx.F
    rid = "C07.a"
    ctx.rule(rid, "slot-index typestate: every cell access uses an index obtained by a successful take from one queue word and hands the same index "
                  "to the other word on every path; send takes from the word new() fills and gives to the other, recv the reverse", floor=7)
    words, cells = roles(F)
    send = method(F, "send"); recv = method(F, "recv"); new = method(F, "new")
    for x in (send, recv, new):
        ctx.fn(x)
    ns, nr, nn = CN(F, send), CN(F, recv), CN(F, new)
    s = analyse_op(ctx, F, rid, send, ns, words, cells, opname="send")
    r = analyse_op(ctx, F, rid, recv, nr, words, cells, opname="recv")
    fills = [(bb, t, c, w) for (bb, t, c, w) in word_calls(F, nn, words) if is_give(t)]
    filled = {w for (_, _, _, w) in fills}
    if s and r:
        ctx.check(filled == {s[1]} and r[1] != s[1] and s[3] == r[1] and r[3] == s[1], rid, "directions",
                  "new() fills `%s`; send: %s -> %s; recv: %s -> %s" % (sorted(filled), s[1], s[3], r[1], r[3]), new.span,
                  {"filled_by_new": sorted(filled), "send": (s[1], s[3]), "recv": (r[1], r[3])})
    return words, cells, s, r, send, recv, nr, new


def rule_b(ctx, words, s, r):
    F = ctx.F
    rid = "C07.b"
    ctx.rule(rid, "orderings: the RMW that acquires an index is >= Acquire, the RMW that hands it over is >= Release; every write to a queue word "
                  "is a compare_exchange (RMW-only keeps release sequences intact); the siginfo exfiltrator's channel pointer is published "
                  ">= Release and read >= Acquire", floor=6)
    take_fn = s[0]; give_ids = s[2] | r[2]
    ctx.check(r[0].id == take_fn.id, rid, "same-take-primitive", "send and recv take through the same primitive", take_fn.span, [take_fn.name, r[0].name])
    for s1 in sites(F, PN(F, take_fn)):
        if s1.op.startswith("compare_exchange"):
            ctx.check(at_least(s1.orders[0], "Acquire", "rmw"), rid, "take:success-ordering", "take: CAS success ordering %s >= Acquire" % s1.orders[0], s1.sp, s1.orders)
            ctx.check(all(not n.startswith("?") for n in s1.orders[1]), rid, "take:failure-ordering", "take: CAS failure ordering constant %s" % s1.orders[1], s1.sp, s1.orders)
    for gid in give_ids:
        g = F.inst[gid]
        for s1 in sites(F, PN(F, g)):
            if s1.op.startswith("compare_exchange"):
                ctx.check(at_least(s1.orders[0], "Release", "rmw"), rid, "give:success-ordering", "give: CAS success ordering %s >= Release" % s1.orders[0], s1.sp, s1.orders)
    # all atomic accesses on u16 words in the channel module (raw frames, and the primitives' normal forms where std RMW helpers such as
    # fetch_update are opened up)
    n = 0
    frames = [i for i in F.inst if i.body is not None and i.local and i.name.startswith(("signal_hook::low_level::channel::", "<signal_hook::low_level::channel::"))]
    frames += [PN(F, c) for c in primitives(F).values()] + [PN(F, c) for c in primitives(F, PAYLOAD).values()]
    RMW = ("compare_exchange", "compare_exchange_weak", "fetch_update", "swap", "fetch_add", "fetch_sub", "fetch_and", "fetch_or", "fetch_xor", "fetch_nand", "fetch_max", "fetch_min")
    for i in frames:
        for s1 in sites(F, i):
            if s1.aty != "u16":
                continue
            if s1.op in RMW:
                n += 1
            okk = s1.op == "load" or s1.op in RMW
            ctx.check(okk, rid, "word-op:%s@%s" % (s1.op, keyname(i.name).split("::")[-1]), "queue word accessed by %s (only loads and read-modify-write operations are allowed)" % s1.op, s1.sp,
                      "a plain store on a queue word breaks the release sequence and can lose concurrent updates")
    if n < 2:
        raise AnchorLost("fewer than 2 read-modify-write accesses on the queue words")
    # exfiltrator pointer
    SLOT = "signal_hook::iterator::exfiltrator::raw::Slot"
    m = 0
    for i in F.inst:
        if i.body is None or not i.local or "signal_hook::iterator::exfiltrator" not in i.name:
            continue
        for s1 in sites(F, i):
            if not s1.aty.startswith("*mut signal_hook::low_level::channel::Channel<"):
                continue
            m += 1
            key = "slot-ptr:%s@%s" % (s1.op, keyname(i.name))
            if s1.op == "load":
                ctx.check(at_least(s1.orders[0], "Acquire", "load"), rid, key, "channel pointer load %s >= Acquire" % s1.orders[0], s1.sp, s1.orders)
            elif s1.op in ("compare_exchange", "compare_exchange_weak", "swap", "store"):
                ctx.check(at_least(s1.orders[0], "Release", "rmw"), rid, key, "channel pointer publish %s >= Release" % s1.orders[0], s1.sp, s1.orders)
    if m < 2:
        raise AnchorLost("exfiltrator channel-pointer accesses (a load and a publish expected)")


def rule_c(ctx):
    F = ctx.F
    rid = "C07.c"
    ctx.rule(rid, "`unsafe impl Send/Sync for Channel<T>` carry the predicate T: Send", floor=2)
    for tr in ("core::marker::Send", "core::marker::Sync"):
        ims = [im for c, im in F.crate_items("impls") if im["trait"] == tr and im["self"].startswith(CH + "<")]
        okk = len(ims) == 1 and ims[0]["unsafe"] and any(re.match(r"^T: core::marker::Send$", p) for p in ims[0]["preds"])
        ctx.check(okk, rid, "impl:%s" % tr.split("::")[-1], "unsafe impl<T: Send> %s for Channel<T>" % tr.split("::")[-1], ims[0]["span"] if ims else None,
                  [(i["self"], i["preds"]) for i in ims])


def rule_d(ctx, send0, recv, body, new):
    F = ctx.F
    rid = "C07.d"
    ctx.rule(rid, "drop discipline: no ptr::read/write/forget/ManuallyDrop/assume_init_read on the payload reachable from the channel's methods; no "
                  "hand-written Drop for Channel and its storage has drop glue; a value not accepted by send is dropped by send", floor=4)
    stop = lambda i: i.defp in ("core::mem::replace", "core::mem::take", "core::mem::swap", "core::option::Option::<T>::take", "core::option::Option::<T>::replace")
    send = CN(F, send0)
    cone = Cone(F, [send0, recv, new], stop=stop)
    ids = set(cone.parent)
    esc = [e for e in escapes(F, lambda a: PAYLOAD in a, clone_pred=lambda a: False) if e.id in ids]
    ctx.check(not esc, rid, "payload:no-bitwise-moves", "no bitwise read/write/forget of the payload in the channel's cone (%d instances; mem::replace / Option::take trusted)" % len(ids),
              None, [cone.chain_text(e.id) for e in esc[:3]])
    dimpl = [im for c, im in F.crate_items("impls") if im["trait"] == "core::ops::drop::Drop" and im["self"].startswith(CH + "<")]
    glue = [i for i in F.inst if i.kind == "drop_glue" and i.drop_ty == "%s<%s>" % (CH, PAYLOAD)]
    reaches = False
    if glue:
        reaches = any(x.kind == "drop_glue" and x.drop_ty == PAYLOAD for x in Cone(F, glue).members)
    ctx.check(not dimpl and reaches, rid, "channel-drop-glue", "Channel has no hand-written Drop and dropping it drops the payloads still stored", None,
              {"drop_impls": len(dimpl), "glue_reaches_payload": reaches})
    # send: on the "no free slot" outcome the value is dropped by send
    words, cells = roles(F)
    takes = [bb for (bb, t, c, w) in word_calls(F, send, words) if is_take(c)]
    okk = False
    for tb in takes:
        for b in range(send.nblocks()):
            t = send.term(b)
            if t["k"] == "switch":
                ex = [deep_strip(e) for e in flow(send).term_operand(b, t["d"])]
                if any(e[0] == "discr" and mentions(e, lambda x: x[0] == "call" and x[1] == tb) for e in ex):
                    none_edges = [tg for tg, lab in send.succ_labeled(b) if lab != "sw:1"]
                    for ne in none_edges:
                        r = cfg.reachable(send, ne, unwind=False)
                        if any(send.term(x)["k"] == "drop" and not send.term(x)["p"]["p"] and send.term(x)["p"]["l"] == 2 for x in r):
                            okk = True
    ctx.check(okk, rid, "send:drops-rejected-value", "when no slot is free, send drops the value itself", send0.span, None)
    # the overwritten cell content is dropped by assignment (Drop terminator on the cell place), not forgotten
    cell_drops = [bb for bb, t in send.drops() if any(p["k"] == "deref" for p in t["p"]["p"]) and "core::option::Option<%s>" % PAYLOAD in t["ty"]]
    ctx.check(bool(cell_drops), rid, "send:assign-with-drop", "send writes the cell by assignment-with-drop (old content dropped, not overwritten bitwise)", send0.span, None)


def rule_e(ctx):
    """exclusivity by index ownership needs the take/give primitives to hand every index to one owner: the CAS loops must recompute the
    returned index and the new queue word from the snapshot the successful CAS compared against (shared with C08.e)"""
    from .C08 import rule_e as coherence
    from .C18 import _Alias
    ctx.rule("C07.e", "take/give CAS loops are coherent: returned index and new queue word derive from the snapshot of the successful compare_exchange, "
                      "on every iteration — a stale head after a retry hands one cell to two owners (shared with C08.e)", floor=3)
    coherence(_Alias(ctx, "C07.e"))


def run(ctx):
    ctx.guarded("C07.e", rule_e)
    from .. import fixtures
    ctx.guarded("C07.FX", lambda c: fixtures.run(c, ['escapes', 'orderings']))
    r = ctx.guarded("C07.a", rule_a)
    if r:
        words, cells, s, rr, send, recv, body, new = r
        if s and rr:
            ctx.guarded("C07.b", rule_b, words, s, rr)
        ctx.guarded("C07.d", rule_d, send, recv, body, new)
    else:
        def late(c):
            F = c.F
            return rule_d(c, method(F, "send"), method(F, "recv"), None, method(F, "new"))
        ctx.guarded("C07.d", late)
    ctx.guarded("C07.c", rule_c)
    ctx.note("not decided: the happens-before theorem itself — the rules check that the declared orderings are the ones the standard "
             "release/acquire argument needs (release sequence through RMWs), not that no execution races")
    ctx.assume("Option::map(o, f) calls f(x) exactly when o is Some(x); mem::replace / Option::take move a value out exactly once (std contracts)")
