"""C07 — channel cells are never accessed concurrently; values dropped exactly once (structural part)."""
import re
from .. import cfg
from ..atomics import sites, at_least, recv_field
from ..conds import facts_at, truth
from ..effects import Cone
from ..facts import keyname, AnchorLost
from ..flow import flow, deps, deep_strip, strip, show, mentions, fold
from .util import call_sites, escapes, closure_constructions

CH = "signal_hook::low_level::channel::Channel"
PAYLOAD = "vroots::Payload"


def roles(F):
    a = F.adt(CH)
    fs = a["variants"][0]["fields"]
    words = [f["name"] for f in fs if f["ty"] == "core::sync::atomic::Atomic<u16>"]
    cells = [f["name"] for f in fs if re.match(r"^\[core::cell::UnsafeCell<core::option::Option<T>>; .*\]$", f["ty"])]
    if len(words) != 2 or len(cells) != 1:
        raise AnchorLost("channel: two AtomicU16 queue words and one cell array expected, found %s / %s" % (words, cells))
    return words, cells[0]


def method(F, name, T=PAYLOAD):
    return F.one("%s::<T>::%s" % (CH, name), name_re=re.escape("::<%s>::%s" % (T, name)) + "$", what="Channel<%s>::%s" % (T, name))


def word_of(m, exprs, words):
    """which queue-word field does the expression (a reference) point to?"""
    out = set()
    for e in exprs:
        e = deep_strip(e)
        while e[0] in ("ref", "deref"):
            e = deep_strip(e[1])
        if e[0] == "field" and e[2] in words and CH in (e[4] or ""):
            out.add(e[2])
        else:
            out.add("?" + show(e))
    return out


def cell_accesses(F, m, cells):
    """[(bb, term, index exprs)] of UnsafeCell::get on the storage array"""
    out = []
    for bb, t in m.calls():
        if t.get("f") is None or not F.inst[t["f"]].defp.startswith("core::cell::UnsafeCell::<T>::get"):
            continue
        for e in flow(m).term_arg(bb, 0):
            e = deep_strip(e)
            x = e
            while x[0] in ("ref", "deref"):
                x = deep_strip(x[1])
            if x[0] == "index" and deep_strip(x[1])[0] == "field" and deep_strip(x[1])[2] == cells:
                out.append((bb, t, x[2]))
    return out


def word_calls(F, m, words):
    """calls of workspace functions taking a reference to a queue word: [(bb, term, callee, word)]"""
    out = []
    for bb, t in m.calls():
        if t.get("f") is None:
            continue
        c = F.inst[t["f"]]
        if not (c.local and c.body is not None) or not t["args"]:
            continue
        w = word_of(m, flow(m).term_arg(bb, 0), words)
        if len(w) == 1 and not list(w)[0].startswith("?"):
            out.append((bb, t, c, list(w)[0]))
    return out


def analyse_op(ctx, F, rid, m, body, words, cells, idx_is_param=None, opname=""):
    """body: the function (or closure) containing the cell access; m: the function taking the index."""
    acc = cell_accesses(F, body, cells)
    key = "%s:" % opname
    if len(acc) != 1:
        ctx.bad(rid, key + "one-cell-access", "%s: expected exactly one cell access, found %d" % (opname, len(acc)), body.span); return None
    abb, at, idx = acc[0]
    takes = [(bb, t, c, w) for (bb, t, c, w) in word_calls(F, m, words) if "core::option::Option<u16>" in c.local_ty(0)]
    if len(takes) != 1:
        ctx.bad(rid, key + "one-take", "%s: expected one take from a queue word, found %d" % (opname, len(takes)), m.span); return None
    tbb, tt, take_fn, take_word = takes[0]
    # the index derives from the take
    def uncast(e):
        e = deep_strip(e)
        while e[0] == "cast":
            e = deep_strip(e[1])
        return e

    def taken_value(e):
        """is e the payload of the successful take: (take as Some).0, or (Try::branch(take) as Continue).0 ?"""
        e = uncast(e)
        if e[0] != "field":
            return False
        b = uncast(e[1])
        if b[0] != "downcast":
            return False
        c = uncast(b[1])
        if c[0] != "call":
            return False
        if c[1] == tbb and b[2] == "Some":
            return True
        if (c[3] or "").endswith("Try::branch") and b[2] == "Continue":
            return all(uncast(a)[0] == "call" and uncast(a)[1] == tbb for a in flow(m).term_arg(c[1], 0))
        return False

    def success_fact(facts):
        for (ce, inf, sb) in facts:
            if ce[0] != "discr":
                continue
            c = uncast(ce[1])
            if c[0] == "call" and c[1] == tbb and inf == ("eq", 1):
                return True
            if c[0] == "call" and (c[3] or "").endswith("Try::branch") and inf == ("eq", 0) and \
                    all(uncast(a)[0] == "call" and uncast(a)[1] == tbb for a in flow(m).term_arg(c[1], 0)):
                return True
        return False
    if body is m:
        d = deps(body, [idx])
        from_take = ("call", tbb) in d
        on_some = success_fact(facts_at(body, abb))
    else:
        d = deps(body, [idx])
        # closure called by Option::map(take_result, closure): its 2nd parameter is the Some payload
        mp = [(bb, t) for bb, t in m.calls() if t.get("f") is not None and F.inst[t["f"]].defp == "core::option::Option::<T>::map"]
        from_take = False
        for bb, t in mp:
            a0 = deps(m, flow(m).term_arg(bb, 0))
            clo = [deep_strip(e) for e in flow(m).term_arg(bb, 1)]
            is_body = any(e[0] == "agg" and e[1][0] == "closure" and e[1][1] == body.defp for e in clo)
            if ("call", tbb) in a0 and is_body and ("param", 2) in d and not any(x[0] == "call" for x in d):
                from_take = True
        on_some = from_take
    ctx.check(from_take and on_some, rid, key + "index-from-successful-take", "%s: the cell index derives from a successful take from `%s`" % (opname, take_word), at["sp"],
              {"index": show(idx), "derives_from_take": from_take, "on_success_branch": on_some})
    # after the access every path to return gives the same index to the other word
    if body is m:
        is_v = taken_value
    else:
        is_v = lambda e: uncast(e) == ("param", 2)
    # the cell index is a function of that value and constants only
    atoms = {x for x in deps(body, [idx], follow=lambda dd: dd.endswith("Try::branch")) if x[0] in ("call", "param")}
    atoms = {x for x in atoms if not (x[0] == "call" and (body.term(x[1]).get("def") or "").endswith("Try::branch"))}
    only_v = atoms <= ({("call", tbb)} if body is m else {("param", 2)})
    ctx.check(only_v, rid, key + "cell-index-only-from-take", "%s: the cell index depends on the taken index and constants only" % opname, at["sp"], sorted(map(str, atoms)))
    gives = [(bb, t, c, w) for (bb, t, c, w) in word_calls(F, body, words) if len(t["args"]) == 2]
    good = []
    for (gbb, gt, gc, gw) in gives:
        ga = flow(body).term_arg(gbb, 1)
        if ga and all(is_v(e) for e in ga):
            good.append((gbb, gt, gc, gw))
    r = cfg.reachable_after(body, abb, avoid={g[0] for g in good}, unwind=False)
    leaks = bool(r & set(body.exits()))
    other = {g[3] for g in good}
    ctx.check(good and not leaks, rid, key + "index-given-back", "%s: every path from the cell access to return hands the same index to a queue word" % opname, at["sp"],
              {"give_calls": [g[1]["sp"] for g in good], "leaking_path": leaks})
    ctx.check(other and take_word not in other and len(other) == 1, rid, key + "to-the-other-queue", "%s: taken from `%s`, given to `%s`" % (opname, take_word, sorted(other)), at["sp"],
              {"taken_from": take_word, "given_to": sorted(other)})
    # nothing derived from the cell pointer is used once the index has been handed back (the cell may already belong to someone else)
    cell_locals = set()
    fl = flow(body)
    changed = True
    dest = body.term(abb).get("dest")
    if dest and not dest["p"]:
        cell_locals.add(dest["l"])
    while changed:
        changed = False
        for bl in body.blocks:
            for st in bl["s"]:
                if st["k"] == "assign" and not st["l"]["p"] and st["l"]["l"] not in cell_locals and _uses(st["r"], cell_locals):
                    cell_locals.add(st["l"]["l"]); changed = True
            t = bl["t"]
            if t["k"] == "call" and t.get("dest") and not t["dest"]["p"] and t["dest"]["l"] not in cell_locals \
                    and any(_op_uses(a, cell_locals) for a in t["args"]) and ("&" in body.local_ty(t["dest"]["l"]) or "*" in body.local_ty(t["dest"]["l"])):
                cell_locals.add(t["dest"]["l"]); changed = True
    late = []
    for (gbb, gt, gc, gw) in good:
        for b in cfg.reachable_after(body, gbb, unwind=False, labels=["ret"]):
            bl = body.blocks[b]
            for st in bl["s"]:
                if st["k"] == "assign" and (_uses(st["r"], cell_locals) or any(p["k"] == "deref" for p in st["l"]["p"]) and st["l"]["l"] in cell_locals):
                    late.append(st["sp"])
            t = bl["t"]
            if t["k"] == "call" and any(_op_uses(a, cell_locals) for a in t["args"]):
                late.append(t["sp"])
            if t["k"] == "drop" and t["p"]["l"] in cell_locals and any(p["k"] == "deref" for p in t["p"]["p"]):
                late.append(t["sp"])
    ctx.check(not late, rid, key + "no-cell-use-after-give", "%s: the cell is not touched after its index was handed back" % opname, at["sp"],
              {"uses_after_give": sorted(set(late))[:4], "why": "once the index is on a queue another send/recv may own the cell"})
    give_fns = {g[2].id for g in good}
    return take_fn, take_word, give_fns, sorted(other)[0] if other else None, abb


def _op_uses(o, locs):
    return o.get("k") in ("copy", "move") and o["p"]["l"] in locs


def _uses(rv, locs):
    k = rv["k"]
    if k == "use":
        return _op_uses(rv["o"], locs)
    if k in ("ref", "rawptr", "discr"):
        return rv["p"]["l"] in locs
    if k == "cast":
        return _op_uses(rv["o"], locs)
    if k == "binop":
        return _op_uses(rv["a"], locs) or _op_uses(rv["b"], locs)
    if k == "unop":
        return _op_uses(rv["a"], locs)
    if k == "aggregate":
        return any(_op_uses(o, locs) for o in rv["ops"])
    return False


def rule_a(ctx):
    F = ctx.F
    rid = "C07.a"
    ctx.rule(rid, "slot-index typestate: every cell access uses an index obtained by a successful take from one queue word and hands the same index "
                  "to the other word on every path; send takes from the word new() fills and gives to the other, recv the reverse", floor=7)
    words, cells = roles(F)
    send = method(F, "send"); recv = method(F, "recv"); new = method(F, "new")
    for x in (send, recv, new):
        ctx.fn(x)
    rc = [i for i in F.inst if i.kind == "closure" and i.body is not None and i.name == recv.name + "::{closure#0}"]
    body = rc[0] if rc and not cell_accesses(F, recv, cells) else recv
    s = analyse_op(ctx, F, rid, send, send, words, cells, opname="send")
    r = analyse_op(ctx, F, rid, recv, body, words, cells, opname="recv")
    # new(): which word is pre-filled
    new_bodies = [new] + [i for i in F.inst if i.kind == "closure" and i.body is not None and i.name.startswith(new.name + "::{closure#")]
    fills = [(bb, t, c, w) for b in new_bodies for (bb, t, c, w) in word_calls(F, b, words) if len(t["args"]) == 2]
    filled = {w for (_, _, _, w) in fills}
    if s and r:
        ctx.check(filled == {s[1]} and r[1] != s[1] and s[3] == r[1] and r[3] == s[1], rid, "directions",
                  "new() fills `%s`; send: %s -> %s; recv: %s -> %s" % (sorted(filled), s[1], s[3], r[1], r[3]), new.span,
                  {"filled_by_new": sorted(filled), "send": (s[1], s[3]), "recv": (r[1], r[3])})
    return words, cells, s, r, send, recv, body, new


def rule_b(ctx, words, s, r):
    F = ctx.F
    rid = "C07.b"
    ctx.rule(rid, "orderings: the RMW that acquires an index is >= Acquire, the RMW that hands it over is >= Release; every write to a queue word "
                  "is a compare_exchange (RMW-only keeps release sequences intact); the siginfo exfiltrator's channel pointer is published "
                  ">= Release and read >= Acquire", floor=6)
    take_fn = s[0]; give_ids = s[2] | r[2]
    ctx.check(r[0].id == take_fn.id, rid, "same-take-primitive", "send and recv take through the same primitive", take_fn.span, [take_fn.name, r[0].name])
    for s1 in sites(F, take_fn):
        if s1.op.startswith("compare_exchange"):
            ctx.check(at_least(s1.orders[0], "Acquire", "rmw"), rid, "take:success-ordering", "take: CAS success ordering %s >= Acquire" % s1.orders[0], s1.sp, s1.orders)
            ctx.check(all(not n.startswith("?") for n in s1.orders[1]), rid, "take:failure-ordering", "take: CAS failure ordering constant %s" % s1.orders[1], s1.sp, s1.orders)
    for gid in give_ids:
        g = F.inst[gid]
        for s1 in sites(F, g):
            if s1.op.startswith("compare_exchange"):
                ctx.check(at_least(s1.orders[0], "Release", "rmw"), rid, "give:success-ordering", "give: CAS success ordering %s >= Release" % s1.orders[0], s1.sp, s1.orders)
    # all atomic accesses on u16 words in the channel module
    n = 0
    for i in F.inst:
        if i.body is None or not i.local or not i.name.startswith("signal_hook::low_level::channel::"):
            continue
        for s1 in sites(F, i):
            if s1.aty != "u16":
                continue
            n += 1
            okk = s1.op in ("load", "compare_exchange", "compare_exchange_weak")
            ctx.check(okk, rid, "word-op:%s@%s" % (s1.op, keyname(i.name).split("::")[-1]), "queue word accessed by %s (only loads and CAS are allowed)" % s1.op, s1.sp,
                      "a plain store/swap/fetch_* on a queue word breaks the release sequence and can lose concurrent updates")
    if n < 4:
        raise AnchorLost("fewer than 4 atomic accesses on the queue words")
    # exfiltrator pointer
    SLOT = "signal_hook::iterator::exfiltrator::raw::Slot"
    m = 0
    for i in F.inst:
        if i.body is None or not i.local or "signal_hook::iterator::exfiltrator" not in i.name:
            continue
        for s1 in sites(F, i):
            if not s1.aty.startswith("*mut signal_hook::low_level::channel::Channel<"):
                continue
            m += 1
            key = "slot-ptr:%s@%s" % (s1.op, keyname(i.name))
            if s1.op == "load":
                ctx.check(at_least(s1.orders[0], "Acquire", "load"), rid, key, "channel pointer load %s >= Acquire" % s1.orders[0], s1.sp, s1.orders)
            elif s1.op in ("compare_exchange", "compare_exchange_weak", "swap", "store"):
                ctx.check(at_least(s1.orders[0], "Release", "rmw"), rid, key, "channel pointer publish %s >= Release" % s1.orders[0], s1.sp, s1.orders)
    if m < 3:
        raise AnchorLost("exfiltrator channel-pointer accesses")


def rule_c(ctx):
    F = ctx.F
    rid = "C07.c"
    ctx.rule(rid, "`unsafe impl Send/Sync for Channel<T>` carry the predicate T: Send", floor=2)
    for tr in ("core::marker::Send", "core::marker::Sync"):
        ims = [im for c, im in F.crate_items("impls") if im["trait"] == tr and im["self"].startswith(CH + "<")]
        okk = len(ims) == 1 and ims[0]["unsafe"] and any(re.match(r"^T: core::marker::Send$", p) for p in ims[0]["preds"])
        ctx.check(okk, rid, "impl:%s" % tr.split("::")[-1], "unsafe impl<T: Send> %s for Channel<T>" % tr.split("::")[-1], ims[0]["span"] if ims else None,
                  [(i["self"], i["preds"]) for i in ims])


def rule_d(ctx, send, recv, body, new):
    F = ctx.F
    rid = "C07.d"
    ctx.rule(rid, "drop discipline: no ptr::read/write/forget/ManuallyDrop/assume_init_read on the payload reachable from the channel's methods; no "
                  "hand-written Drop for Channel and its storage has drop glue; a value not accepted by send is dropped by send", floor=4)
    stop = lambda i: i.defp in ("core::mem::replace", "core::mem::take", "core::mem::swap", "core::option::Option::<T>::take", "core::option::Option::<T>::replace")
    cone = Cone(F, [send, recv, new], stop=stop)
    ids = set(cone.parent)
    esc = [e for e in escapes(F, lambda a: PAYLOAD in a, clone_pred=lambda a: False) if e.id in ids]
    ctx.check(not esc, rid, "payload:no-bitwise-moves", "no bitwise read/write/forget of the payload in the channel's cone (%d instances; mem::replace / Option::take trusted)" % len(ids),
              None, [cone.chain_text(e.id) for e in esc[:3]])
    dimpl = [im for c, im in F.crate_items("impls") if im["trait"] == "core::ops::drop::Drop" and im["self"].startswith(CH + "<")]
    glue = [i for i in F.inst if i.kind == "drop_glue" and i.drop_ty == "%s<%s>" % (CH, PAYLOAD)]
    reaches = False
    if glue:
        reaches = any(x.kind == "drop_glue" and x.drop_ty == PAYLOAD for x in Cone(F, glue).members)
    ctx.check(not dimpl and reaches, rid, "channel-drop-glue", "Channel has no hand-written Drop and dropping it drops the payloads still stored", None,
              {"drop_impls": len(dimpl), "glue_reaches_payload": reaches})
    # send: on the "no free slot" outcome the value is dropped by send
    takes = [bb for bb, t in send.calls() if t.get("f") is not None and "core::option::Option<u16>" in F.inst[t["f"]].local_ty(0) if F.inst[t["f"]].body]
    okk = False
    for tb in takes:
        for b in range(send.nblocks()):
            t = send.term(b)
            if t["k"] == "switch":
                ex = [deep_strip(e) for e in flow(send).term_operand(b, t["d"])]
                if any(e[0] == "discr" and mentions(e, lambda x: x[0] == "call" and x[1] == tb) for e in ex):
                    none_edges = [tg for tg, lab in send.succ_labeled(b) if lab != "sw:1"]
                    for ne in none_edges:
                        r = cfg.reachable(send, ne, unwind=False)
                        if any(send.term(x)["k"] == "drop" and not send.term(x)["p"]["p"] and send.term(x)["p"]["l"] == 2 for x in r):
                            okk = True
    ctx.check(okk, rid, "send:drops-rejected-value", "when no slot is free, send drops the value itself", send.span, None)
    # the overwritten cell content is dropped by assignment (Drop terminator on the cell place), not forgotten
    cell_drops = [bb for bb, t in send.drops() if any(p["k"] == "deref" for p in t["p"]["p"]) and "core::option::Option<%s>" % PAYLOAD in t["ty"]]
    ctx.check(bool(cell_drops), rid, "send:assign-with-drop", "send writes the cell by assignment-with-drop (old content dropped, not overwritten bitwise)", send.span, None)


def run(ctx):
    from .. import fixtures
    ctx.guarded("C07.FX", lambda c: fixtures.run(c, ['escapes', 'orderings']))
    r = ctx.guarded("C07.a", rule_a)
    if r:
        words, cells, s, rr, send, recv, body, new = r
        if s and rr:
            ctx.guarded("C07.b", rule_b, words, s, rr)
        ctx.guarded("C07.d", rule_d, send, recv, body, new)
    else:
        def late(c):
            F = c.F
            return rule_d(c, method(F, "send"), method(F, "recv"), None, method(F, "new"))
        ctx.guarded("C07.d", late)
    ctx.guarded("C07.c", rule_c)
    ctx.note("not decided: the happens-before theorem itself — the rules check that the declared orderings are the ones the standard "
             "release/acquire argument needs (release sequence through RMWs), not that no execution races")
    ctx.assume("Option::map(o, f) calls f(x) exactly when o is Some(x); mem::replace / Option::take move a value out exactly once (std contracts)")
