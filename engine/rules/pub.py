"""publish sites: calls that publish a snapshot of HalfLock<T> — WriteGuard<T>::store itself or a workspace helper that does nothing
but forward two of its parameters to it (so extracting `fn publish(guard, data)` changes no verdict)"""
from .. import cfg
from ..flow import flow, deps

STORE = "signal_hook_registry::half_lock::WriteGuard::<'_, %s>::store"
_memo = {}


def _forwarder(F, c, T):
    """if c forwards (guard param i, value param j) to store on every path: (i, j) else None"""
    key = (id(F), c.id, T)
    if key in _memo:
        return _memo[key]
    res = None
    if c.local and c.body is not None and c.kind != "closure":
        sites = [(bb, t) for bb, t in c.calls() if t.get("f") is not None and F.inst[t["f"]].name == STORE % T]
        if len(sites) == 1:
            bb, t = sites[0]
            g = {x for x in deps(c, flow(c).term_arg(bb, 0), follow=lambda d: d.endswith("deref") or d.endswith("deref_mut")) if x[0] in ("param",)}
            v = {x for x in deps(c, flow(c).term_arg(bb, 1), follow=lambda d: False) if x[0] in ("param", "call")}
            r = cfg.reachable(c, 0, avoid={bb}, unwind=False)
            always = not (r & set(c.exits()))
            if len(g) == 1 and len(v) == 1 and list(v)[0][0] == "param" and always:
                res = (list(g)[0][1], list(v)[0][1])
    _memo[key] = res
    return res


def publish_sites(F, m, T):
    """[(bb, term, guard_arg_index, value_arg_index)]"""
    out = []
    if m.body is None:
        return out
    for bb, t in m.calls():
        if t.get("f") is None:
            continue
        c = F.inst[t["f"]]
        if c.name == STORE % T:
            out.append((bb, t, 0, 1))
        else:
            fw = _forwarder(F, c, T)
            if fw is not None:
                out.append((bb, t, fw[0] - 1, fw[1] - 1))
    return out


def is_forwarder(F, m, T):
    return _forwarder(F, m, T) is not None
