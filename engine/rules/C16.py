"""C16 — default-action emulation matches what the kernel would have done (table agreement + path order)."""
import re
from .. import cfg
from ..conds import facts_at, truth
from ..effects import _tsv, Cone
from ..facts import keyname, AnchorLost
from ..flow import infeasible, flow, deps, deep_strip, strip, show, mentions, fold
from .util import call_sites, foreign, result_gates

CLASS2KIND = {"term": "Term", "core": "Term", "stop": "Stop", "ign": "Ignore", "cont": "Ignore"}
SIG_UNBLOCK = 1
EINVAL = 22


MOD = "signal_hook::low_level::signal_details::"
_details_cache = {}


def details_table(F):
    """(const path, row struct path, rows) of the table of known signals: the constant of the module whose value is a list of structs each
    holding a number, a name and an enum variant — whatever the table and its row type are called"""
    if id(F) in _details_cache:
        return _details_cache[id(F)]
    found = []
    for c, it in F.crate_items("consts"):
        if not it["fpath"].startswith(MOD):
            continue
        val = it.get("val")
        if not isinstance(val, list) or len(val) < 20:
            continue
        rows = []; struct = None
        for r in val:
            if not (isinstance(r, dict) and "fields" in r):
                rows = None; break
            num = name = kind = None
            for k, v in r["fields"]:
                if isinstance(v, bool):
                    continue
                if isinstance(v, int):
                    num = v
                elif isinstance(v, str):
                    name = v
                elif isinstance(v, dict) and "variant" in v:
                    kind = v["variant"]
            if num is None or name is None or kind is None:
                rows = None; break
            struct = r.get("struct")
            rows.append((num, name, kind))
        if rows:
            found.append((it["fpath"], struct, rows))
    if len(found) != 1:
        raise AnchorLost("table of known signals (a constant list of (number, name, default kind) rows in signal_details): found %s" % [f[0] for f in found])
    _details_cache[id(F)] = found[0]
    return found[0]


def details(F):
    return details_table(F)[2]


REF_SIGNALS = {"Term": 15, "Stop": 20, "Ignore": 17}      # SIGTERM, SIGTSTP, SIGCHLD: one reference signal per kernel disposition class


def kind_roles(F):
    """the enum that encodes the default disposition, and which of its variants stands for terminate / stop / ignore — read off the table
    itself (the variant given to SIGTERM, SIGTSTP, SIGCHLD), so renaming the type or its variants changes nothing"""
    rows = details(F)
    by_num = {num: kind for (num, name, kind) in rows}
    roles = {}
    for role, num in REF_SIGNALS.items():
        if num not in by_num:
            raise AnchorLost("DETAILS has no row for reference signal %d" % num)
        roles[role] = by_num[num]
    d = F.adt(details_table(F)[1] or "signal_hook::low_level::signal_details::Details")
    enums = []
    for f in d["variants"][0]["fields"]:
        t = f["ty"]
        if t.startswith("signal_hook::low_level::signal_details::"):
            try:
                a = F.adt(t)
            except AnchorLost:
                continue
            if len(a["variants"]) > 1:
                enums.append(a)
    if len(enums) != 1:
        raise AnchorLost("the default-disposition enum of Details: %s" % [a["path"] for a in enums])
    return enums[0], roles


def rule_a(ctx):
    F = ctx.F
    rid = "C16.a"
    ctx.rule(rid, "every DETAILS row: the name is the platform's name for that number and the default kind equals the kernel's default "
                  "disposition class for that signal on the build target (oracle: kernel SIG_KERNEL_*_MASK = signal(7))", floor=28)
    nums = {r[0]: int(r[1]) for r in _tsv("linux_signal_numbers.tsv")}
    cls = {r[0]: r[1] for r in _tsv("linux_default_dispositions.tsv")}
    rows = details(F)
    kind_adt, roles = kind_roles(F)
    ctx.check(len(set(roles.values())) == 3, rid, "kinds:distinct", "terminate / stop / ignore are three different variants of %s (as given to SIGTERM, SIGTSTP, SIGCHLD)" % kind_adt["path"].split("::")[-1],
              kind_adt["span"], roles)
    seen_num = {}
    for (num, name, kind) in rows:
        key = "DETAILS[%s]" % name
        if name not in nums or name not in cls:
            ctx.bad(rid, key, "signal name %s is not in the oracle for this target (cannot vouch for it)" % name, None, {"number": num}); continue
        ctx.check(nums[name] == num, rid, key + ":number", "%s is %d on this platform" % (name, nums[name]), None, {"table": num, "platform": nums[name]})
        want = roles[CLASS2KIND[cls[name]]]
        ctx.check(kind == want, rid, key + ":kind", "%s default kind %s matches the kernel's class `%s`" % (name, kind, cls[name]), None,
                  {"table_kind": kind, "oracle_kind": want, "oracle_class": cls[name]})
        if num in seen_num and seen_num[num] != (name, kind):
            ctx.bad(rid, key + ":duplicate", "two rows for signal %d with different content (the first one wins)" % num, None, [seen_num[num], (name, kind)])
        seen_num.setdefault(num, (name, kind))


def rule_b(ctx):
    from .. import inline
    F = ctx.F
    rid = "C16.b"
    ctx.rule(rid, "terminate path: restore SIG_DFL -> unblock that signal -> raise(signal), in that order, never returning (abort); stop path raises "
                  "SIGSTOP; ignore path has no effect; the unknown-signal error precedes every effect", floor=8)
    m0 = F.one("signal_hook::low_level::signal_details::emulate_default_handler")
    ctx.fn(m0)
    # normal form: private helpers inlined, except the function(s) making the sigaction call (the "restore" step is judged as a call whose
    # Result gates the re-raise) and the public raise()
    from .nf import NF
    restorers = [i for i in Cone(F, [m0]).members if i.local and i.body is not None and i.id != m0.id and call_sites(F, i, foreign("sigaction"))]
    m = NF(F, m0, vocab=[re.escape(i.name) + "$" for i in restorers] or None)
    fl = flow(m)
    kind_adt, roles = kind_roles(F)
    KT = kind_adt["path"]
    vidx = {role: [v.get("discr", i) for i, v in enumerate(kind_adt["variants"]) if v["name"] == vname][0] for role, vname in roles.items()}
    # the branch on the looked-up kind
    sw = None
    for b in range(m.nblocks()):
        t = m.term(b)
        if t["k"] == "switch" and not m.blocks[b].get("dead") and KT in (_discr_ty(m, b) or ""):
            sw = b
    if sw is None:
        raise AnchorLost("branch on the default-disposition enum in emulate_default_handler")
    tgt = {v: b for v, b in m.term(sw)["vals"]}

    def region(variant):
        start = tgt.get(vidx[variant])
        if start is None:
            start = m.term(sw)["else"]
        return cfg.reachable(m, start, unwind=False)

    def effect_calls(blocks):
        out = []
        for b in sorted(blocks):
            t = m.term(b)
            if t["k"] == "call" and t.get("f") is not None:
                c = F.inst[t["f"]]
                if c.kind == "foreign" or (c.local and c.body is not None and Cone(F, [c]).of_class("SAFE_FFI", "TERM", "SAFE_FFI_BLOCK")):
                    out.append((b, t, c))
        return out
    # ---- Term
    term_r = region("Term")
    eff = effect_calls(term_r)
    restore = [(b, t, c) for b, t, c in eff if c.symbol == "sigaction" or
               (Cone(F, [c]).of_class("SAFE_FFI") and any(i.symbol == "sigaction" for i, _, _ in Cone(F, [c]).of_class("SAFE_FFI")))]
    unblock = [(b, t, c) for b, t, c in eff if c.symbol == "sigprocmask"]
    raises = [(b, t, c) for b, t, c in eff if c.symbol == "raise" or (c.local and any(i.symbol == "raise" for i, _, _ in Cone(F, [c]).of_class("SAFE_FFI")))]
    aborts = [(b, t, c) for b, t, c in eff if c.symbol == "abort"]
    okk = len(restore) == 1 and len(unblock) == 1 and len(raises) == 1 and len(aborts) >= 1
    ctx.check(okk, rid, "term:steps", "terminate path has one restore, one unblock, one raise and an abort", m0.span,
              {"restore": len(restore), "unblock": len(unblock), "raise": len(raises), "abort": len(aborts)})
    if okk:
        dom = cfg.dominators(m)
        rb, ub, xb = restore[0][0], unblock[0][0], raises[0][0]
        ctx.check(rb in dom[ub] and ub in dom[xb] and rb != ub != xb, rid, "term:order", "restore SIG_DFL dominates the unblock, which dominates the re-raise", raises[0][1]["sp"],
                  {"restore": restore[0][1]["sp"], "unblock": unblock[0][1]["sp"], "raise": raises[0][1]["sp"]})
        sig_ok = [deep_strip(e) for e in fl.term_arg(rb, 0)] == [("param", 1)] and [deep_strip(e) for e in fl.term_arg(xb, 0)] == [("param", 1)]
        if restore[0][2].symbol == "sigaction":
            from ..flow import partial_fields
            loc = None
            for e in fl.term_arg(rb, 1):
                e = deep_strip(e)
                while e[0] in ("ref", "cast"):
                    e = deep_strip(e[1])
                if e[0] == "partial":
                    loc = e[1]
            hv = (partial_fields(m, loc, (rb, len(m.stmts(rb)))).get("sa_sigaction") or []) if loc is not None else []
            sig_ok = sig_ok and bool(hv) and all(fold(e) == 0 for e in hv)
        ctx.check(sig_ok, rid, "term:same-signal", "restore and raise use the function's own signal argument", raises[0][1]["sp"], None)
        how = [fold(e) for e in fl.term_arg(ub, 0)]
        ctx.check(how == [SIG_UNBLOCK], rid, "term:unblock-how", "sigprocmask is called with SIG_UNBLOCK", unblock[0][1]["sp"], how)
        # the set is built from the same signal: sigemptyset + sigaddset(set, signal) between restore and unblock, on the set handed to sigprocmask
        set_ok = False
        adds = [(b, t) for b, t, c in eff if c.symbol == "sigaddset"]
        empt = [(b, t) for b, t, c in eff if c.symbol == "sigemptyset"]
        setp = deps(m, fl.term_arg(ub, 1), follow=lambda d: False)
        for (ab, at) in adds:
            a1 = [deep_strip(e) for e in fl.term_arg(ab, 1)]
            same_set = bool(deps(m, fl.term_arg(ab, 0), follow=lambda d: False) & setp)
            if a1 == [("param", 1)] and ab in dom[ub] and rb in dom[ab] and same_set and any(eb in dom[ab] for eb, _ in empt):
                set_ok = True
        ctx.check(set_ok, rid, "term:set-from-signal", "the unblocked set is {signal}: built by sigemptyset + sigaddset(signal) between restore and unblock", unblock[0][1]["sp"], None)
        never = not (cfg.reachable_after(m, rb, unwind=False) & set(m.exits()))
        ctx.check(never, rid, "term:never-returns", "after the restore no path returns (abort is the fallback on every path)", restore[0][1]["sp"], None)
        g, why = result_gates(F, m, rb, xb)
        if not g and restore[0][2].local and restore[0][2].body is not None and restore[0][2].local_ty(0) == "bool":
            g, why = _bool_gate(F, m, rb, xb, restore[0][2])
        if not g and restore[0][2].symbol == "sigaction":
            # direct system call: success is `== 0`
            g = any(ce[0] == "binop" and ce[1] in ("Eq", "Ne") and mentions(ce, lambda x: x[0] == "call" and x[1] == rb) and
                    ((ce[1] == "Eq" and truth(inf) is True) or (ce[1] == "Ne" and truth(inf) is False)) for (ce, inf, sb) in facts_at(m, xb))
        ctx.check(g, rid, "term:raise-after-restore-ok", "the re-raise happens only when the restore succeeded", raises[0][1]["sp"], why)
        # ... and "succeeded" means what the system call said: with every helper inlined, no re-raise is reachable from the failure
        # outcome of sigaction(..) (anything but 0)
        from .C14 import result_tests
        from .nf import keep_for
        mf = inline.cached(F, m0, keep=keep_for(F, m0, None, False), tag="c16-full", hof=True, thread=True,
                           inlinable=lambda c: inline.default_inlinable(F, c, True) or (c is not None and c.body is not None and bool(inline.SHAPE_PRED_RE.match(c.name))))
        flf = flow(mf)
        okp = True; whyp = []; nsa = 0

        def is_raise(ci):
            return ci.symbol == "raise" or (ci.local and any(i.symbol == "raise" for i, _, _ in Cone(F, [ci]).of_class("SAFE_FFI")))
        for (sb_, st_, sc_) in call_sites(F, mf, foreign("sigaction")):
            nsa += 1
            tests, fail = result_tests(mf, sb_)
            if not tests:
                okp = False; whyp.append("the result of sigaction is not compared with 0")
            # assume the success outcome (result == 0) never happens: nothing that re-raises may remain after the call
            cut = {(tb_, tg_) for tb_ in tests for tg_ in mf.succ(tb_, unwind=False) if (tb_, tg_) not in fail}
            m2_ = inline.assuming(F, mf, cut)
            rr_ = cfg.reachable(m2_, sb_, unwind=False) if not m2_.blocks[sb_].get("dead") else set()
            hit = [t_["sp"] for b_, t_, c_ in call_sites(F, m2_, is_raise) if b_ in rr_ and b_ in cfg.reachable(m2_, 0, unwind=False)]
            if hit:
                okp = False; whyp.append({"re-raise reachable although sigaction failed": hit})
        nraise = len(call_sites(F, mf, is_raise))
        if nsa:
            if not nraise:
                raise AnchorLost("re-raise call in the fully inlined emulate_default_handler")
            ctx.check(okp, rid, "term:restore-ok-iff-zero", "the signal is re-raised only when sigaction returned 0 (helpers inlined)", raises[0][1]["sp"], whyp)
    # ---- Stop
    stop_r = region("Stop") - term_r
    eff = effect_calls(region("Stop"))
    eff = [(b, t, c) for b, t, c in eff if b in stop_r or tgt.get(vidx["Stop"]) == b]
    okk = len(eff) == 1 and [fold(e) for e in fl.term_arg(eff[0][0], 0)] == [19] and any(i.symbol == "raise" for i, _, _ in Cone(F, [eff[0][2]]).of_class("SAFE_FFI"))
    ctx.check(okk, rid, "stop:raises-SIGSTOP", "stop path raises the SIGSTOP constant and does nothing else", eff[0][1]["sp"] if eff else m.span,
              [(c.name, [show(e) for e in fl.term_arg(b, 0)]) for b, t, c in eff])
    # ---- Ignore
    ign_start = tgt.get(vidx["Ignore"])
    ign_r = cfg.reachable(m, ign_start, unwind=False) if ign_start is not None else set()
    eff = effect_calls(ign_r)
    ctx.check(ign_start is not None and not eff, rid, "ignore:no-effect", "ignore path makes no system call", m.span, [c.name for _, _, c in eff])
    # ---- unknown
    all_eff = effect_calls(cfg.reachable(m, 0, unwind=False))
    lookups = [b for b, t in m.calls() if (t.get("def") or "").endswith("Try::branch")]
    bad = []
    for b, t, c in all_eff:
        early = any(ce[0] == "binop" and ce[1] == "Eq" and deep_strip(ce[2]) == ("param", 1) and fold(ce[3]) in (9, 19) for (ce, inf, sb) in facts_at(m, b))
        gated = any(sw in cfg.dominators(m)[b] for _ in [0])
        if not gated and not _early_known(m, b):
            bad.append(c.name + " @ " + t["sp"])
    ctx.check(not bad, rid, "unknown:error-first", "every effect is dominated by the successful table lookup (or by signal == SIGSTOP/SIGKILL)", m.span, bad)
    # SIGKILL and SIGSTOP cannot have their disposition changed: they are re-raised directly, each on its own (`||`, not `&&`)
    from ..conds import switch_edges
    rz = [(b, t, c) for b, t, c in all_eff if c.symbol == "raise" or (c.local and any(i.symbol == "raise" for i, _, _ in Cone(F, [c]).of_class("SAFE_FFI")))]
    for num, nm_ in ((9, "SIGKILL"), (19, "SIGSTOP")):
        other = 19 if num == 9 else 9
        # edges that need `signal == other` to be true are removed: the raise must still be reachable before the table lookup
        drop = set()
        for (b2, tgt, lab, exprs, t2) in switch_edges(m):
            for e in exprs:
                e = deep_strip(e)
                if e[0] == "binop" and e[1] in ("Eq", "Ne") and deep_strip(e[2]) == ("param", 1) and fold(e[3]) == other:
                    val = int(lab[3:]) if lab.startswith("sw:") else None
                    is_true = (val is not None and val != 0) or (val is None and [v for v, _ in t2["vals"]] == [0])
                    if (e[1] == "Eq" and is_true) or (e[1] == "Ne" and not is_true):
                        drop.add((b2, tgt))
                elif e == ("param", 1) and lab == "sw:%d" % other and not any(v == num and tg == tgt for v, tg in t2["vals"]):
                    drop.add((b2, tgt))
        r_ = cfg.reachable_without_edges(m, 0, drop, avoid={sw})
        direct = [t["sp"] for b, t, c in rz if b in r_ and [deep_strip(x) for x in fl.term_arg(b, 0)] == [("param", 1)]]
        ctx.check(bool(direct), rid, "uncatchable:%s" % nm_, "%s is re-raised directly, without going through the table (its disposition cannot be restored)" % nm_, m0.span,
                  {"direct_raise_sites_reachable_for_%s_alone" % nm_: direct})
    # the row whose kind is used is the one whose number *equals* the argument: if the comparison `row.number == signal` never held,
    # no branch on a looked-up kind would remain
    from .. import inline
    cut = set(); cmps = []
    for (b2, tgt_, lab, exprs, t2) in switch_edges(m):
        for e in exprs:
            e = deep_strip(e)
            if e[0] == "binop" and e[1] in ("Eq", "Ne"):
                pair = (deep_strip(e[2]), deep_strip(e[3]))
                if any(x == ("param", 1) for x in pair) and any(x[0] == "field" for x in pair):
                    val = int(lab[3:]) if lab.startswith("sw:") else None
                    is_true = (val is not None and val != 0) or (val is None and [v for v, _ in t2["vals"]] == [0])
                    if (e[1] == "Eq") == is_true:
                        cut.add((b2, tgt_))
                    cmps.append(t2.get("sp"))
    if cut:
        m2 = inline.assuming(F, m, cut)
        left = [b2 for b2 in cfg.reachable(m2, 0, unwind=False) if m2.term(b2)["k"] == "switch" and not m2.blocks[b2].get("dead") and KT in (_discr_ty(m2, b2) or "")]
        ctx.check(not left, rid, "lookup:equality", "the table row used is the one whose number equals the argument (no branch on a looked-up kind survives assuming the comparison never holds)",
                  m0.span, {"comparisons": sorted(set(cmps)), "kind_branches_left": [m2.term(b2).get("sp") for b2 in left]})
    else:
        ctx.ok(rid, "lookup:equality", "no equality scan between a row number and the argument in this shape of the lookup: polarity question does not arise", m0.span)
    errs = [i for i in Cone(F, [m]).members if i.defp == "std::io::error::Error::from_raw_os_error"]
    ctx.check(bool(errs), rid, "unknown:einval", "the unknown-signal error is an OS error code (EINVAL), built without allocation", m.span, None)


def _bool_gate(F, m, rb, xb, callee):
    """the restoring helper answers with a bool: which answer means success is read off its own normal form (`sigaction(..) == 0`), and the
    re-raise must be unreachable from the other answer"""
    from .nf import NF
    from ..conds import switch_edges
    c = NF(F, callee)
    fl = flow(c)
    pol = set()
    for rbk in c.exits():
        for e in fl.place({"l": 0, "p": []}, (rbk, len(c.stmts(rbk)))):
            e = deep_strip(e)
            if e[0] == "binop" and e[1] in ("Eq", "Ne") and fold(e[3]) == 0 and deep_strip(e[2])[0] == "call" and \
                    (c.term(deep_strip(e[2])[1]).get("def") or "").endswith("sigaction"):
                pol.add(e[1] == "Eq")
            else:
                pol.add(None)
    if len(pol) != 1 or None in pol:
        return False, "cannot tell which answer of %s means success" % callee.name.split("::")[-1]
    success_true = pol.pop()
    found = False
    for (b, tgt, lab, exprs, t) in switch_edges(m):
        for e in exprs:
            e = deep_strip(e)
            neg = False
            if e[0] == "unop" and e[1] == "Not":
                neg = True; e = deep_strip(e[2])
            if not (e[0] == "call" and e[1] == rb):
                continue
            found = True
            val = int(lab[3:]) if lab.startswith("sw:") else None
            is_true = (val is not None and val != 0) or (val is None and [v for v, _ in t["vals"]] == [0])
            answer = (not is_true) if neg else is_true
            if answer != success_true and (xb == tgt or xb in cfg.reachable(m, tgt, unwind=False)):
                return False, "the re-raise is reachable although the restore reported failure"
    return (found, "re-raise only after the restore reported success" if found else "the restore's answer is never examined")


def _early_known(m, b):
    """block reachable only through `signal == SIGSTOP || signal == SIGKILL` edges"""
    for (ce, inf, sb) in facts_at(m, b):
        if ce[0] == "binop" and ce[1] == "Eq" and deep_strip(ce[2]) == ("param", 1) and fold(ce[3]) in (9, 19) and truth(inf) is True:
            return True
        if ce == ("param", 1) and inf[0] == "eq" and inf[1] in (9, 19):
            return True
    # joined from two such edges (|| short circuit): all predecessors chains start at those tests
    preds = m.preds(False)
    st = [b]; seen = set()
    while st:
        x = st.pop()
        if x in seen:
            continue
        seen.add(x)
        for p in preds[x]:
            t = m.term(p)
            if t["k"] == "switch":
                ex = [deep_strip(e) for e in flow(m).term_operand(p, t["d"])]
                if ex == [("param", 1)]:
                    # `match signal { SIGSTOP | SIGKILL => .. }`: value edges 9 / 19 only
                    labs = [lab for tg, lab in m.succ_labeled(p) if tg == x]
                    if labs and all(lab in ("sw:9", "sw:19") for lab in labs):
                        continue
                    return False
                if all(e[0] == "binop" and e[1] == "Eq" and deep_strip(e[2]) == ("param", 1) and fold(e[3]) in (9, 19) for e in ex):
                    # must be the true edge
                    if any(tg == x and lab == "else" for tg, lab in m.succ_labeled(p)):
                        continue
                    return False
                return False
            st.append(p)
    return True


def _discr_ty(m, b):
    """type of the place whose discriminant the switch at b examines (`discr(_n)` or `discr((*_n).field)`)"""
    d = m.term(b).get("d") or {}
    dl = d["p"]["l"] if d.get("k") in ("copy", "move") and not d["p"]["p"] else None
    for s in reversed(m.stmts(b)):
        if s["k"] == "assign" and s["r"]["k"] == "discr" and (dl is None or (not s["l"]["p"] and s["l"]["l"] == dl)):
            pl = s["r"]["p"]
            fields = [p for p in pl["p"] if p["k"] == "field"]
            if fields:
                return fields[-1].get("t")
            if not pl["p"]:
                return m.local_ty(pl["l"])
    return None


def _discr_local(m, b):
    t = m.term(b)
    for e in flow(m).term_operand(b, t["d"]):
        e = deep_strip(e)
        if e[0] == "discr":
            x = deep_strip(e[1])
            # find a local of that type: scan statements for `discr(_n)`
    d = t.get("d") or {}
    dl = d["p"]["l"] if d.get("k") in ("copy", "move") and not d["p"]["p"] else None
    for s in reversed(m.stmts(b)):
        if s["k"] == "assign" and s["r"]["k"] == "discr" and (dl is None or (not s["l"]["p"] and s["l"]["l"] == dl)):
            return s["r"]["p"]["l"]
    return None


CMP = ("Eq", "Ne", "Lt", "Le", "Gt", "Ge", "Cmp")


def _tainted(e, params, upvars):
    def pred(x):
        if x[0] == "param" and x[1] in params:
            return True
        if x[0] == "field" and upvars and x[3] in upvars:
            b = deep_strip(x[1])
            while b[0] in ("deref", "ref"):
                b = deep_strip(b[1])
            return b == ("param", 1)
        return False
    return mentions(e, pred)


def _range_checked(m, bb, params):
    lower = upper = False
    for (ce, inf, sb) in facts_at(m, bb):
        if ce[0] != "binop":
            continue
        a = deep_strip(ce[2])
        while a[0] == "cast":
            a = deep_strip(a[1])
        if not (a[0] == "param" and a[1] in params):
            continue
        tv = truth(inf); bv = fold(ce[3])
        if ce[1] == "Ge" and bv == 0 and tv: lower = True
        if ce[1] == "Lt" and bv == 0 and tv is False: lower = True
        if ce[1] in ("Lt", "Le") and bv is not None and tv: upper = True
    return lower and upper


def signal_transformations(F, m, params, upvars=(), seen=None, depth=0):
    """places where the signal number is transformed arithmetically / used as an index without a dominating range check:
    [(description, span)] — walks workspace callees and closures that receive the value"""
    seen = seen if seen is not None else set()
    key = (m.id, tuple(sorted(params)), tuple(sorted(upvars)))
    if key in seen or depth > 6:
        return []
    seen.add(key)
    out = []
    fl = flow(m)
    for bb, bl in enumerate(m.blocks):
        if bl["cleanup"]:
            continue
        for si, st in enumerate(bl["s"]):
            if st["k"] != "assign":
                continue
            r = st["r"]
            if r["k"] == "binop" and r["op"] not in CMP:
                ex = fl.rvalue(r, (bb, si))
                if any(_tainted(e, params, upvars) for e in ex) and not _range_checked(m, bb, params):
                    out.append(("%s on the signal number in %s" % (r["op"], m.name.split("::")[-1]), st["sp"]))
            for pl in [st["l"]] + ([r["p"]] if r["k"] in ("ref", "rawptr") else []) + ([r["o"]["p"]] if r["k"] == "use" and r["o"].get("p") else []):
                for p in pl["p"]:
                    if p["k"] == "index":
                        ie = fl.local(p["l"], (bb, si))
                        if any(_tainted(e, params, upvars) for e in ie) and not _range_checked(m, bb, params):
                            out.append(("signal number used as an index in %s" % m.name.split("::")[-1], st["sp"]))
        t = bl["t"]
        if t["k"] != "call":
            continue
        for ai, a in enumerate(t["args"]):
            ex = [deep_strip(e) for e in fl.term_arg(bb, ai)]
            if not any(_tainted(e, params, upvars) for e in ex):
                continue
            callee = F.inst[t["f"]] if t.get("f") is not None else None
            d = t.get("def") or ""
            # a closure capturing the value, handed to an adapter: analyse the closure
            for e in ex:
                if e[0] == "agg" and e[1][0] == "closure":
                    cl = [c for c in F.inst if c.kind == "closure" and c.defp == e[1][1] and c.body is not None and c.name.startswith(m.name.split("::{closure")[0])]
                    ups = {k for k, u in enumerate(e[2]) if _tainted(u, params, upvars)}
                    for c in cl[:1]:
                        out += signal_transformations(F, c, set(), ups, seen, depth + 1)
            if callee is not None and callee.local and callee.body is not None and callee.kind != "closure":
                out += signal_transformations(F, callee, {ai + 1}, (), seen, depth + 1)
            elif d.startswith("core::num::") and not _range_checked(m, bb, params):
                out.append(("%s applied to the signal number in %s" % (d.split("::")[-1], m.name.split("::")[-1]), t["sp"]))
    return out


def rule_c(ctx):
    F = ctx.F
    rid = "C16.c"
    ctx.rule(rid, "the signal number reaches the default-kind decision only through comparisons (or unchanged into system calls): no shift / mask / "
                  "modulo / index on it without a dominating range check — otherwise numbers outside the table alias known signals", floor=1)
    m = F.one("signal_hook::low_level::signal_details::emulate_default_handler")
    tr = signal_transformations(F, m, {1})
    ctx.check(not tr, rid, "signal-only-compared", "emulate_default_handler (and the helpers/closures it hands the number to) only compares the signal number", m.span,
              {"transformations": tr[:6], "why": "e.g. 1 << (n mod 64): 143 = 128+SIGTERM would be treated as SIGTERM instead of returning EINVAL"})
    n = F.one("signal_hook::low_level::signal_details::signal_name")
    tr2 = signal_transformations(F, n, {1})
    ctx.check(not tr2, rid, "signal_name-only-compared", "signal_name only compares the signal number", n.span, tr2[:6])


def rule_d(ctx):
    """a signal known by name has an emulation: the name lookup and the default-kind lookup read the same table"""
    F = ctx.F
    rid = "C16.d"
    ctx.rule(rid, "signal_name answers from the DETAILS table only (every name it can return is a field of a DETAILS row), and the default kind used by the "
                  "emulation comes from a row of the same table: no second source of 'known' signals", floor=2)
    from .nf import NF
    DET = details_table(F)[0]
    for fname, what in (("signal_hook::low_level::signal_details::signal_name", "name"), ("signal_hook::low_level::signal_details::emulate_default_handler", "default kind")):
        m0 = F.one(fname)
        m = NF(F, m0)
        fl = flow(m)
        if what == "name":
            vals = [e for rb in m.exits() for e in fl.place({"l": 0, "p": []}, (rb, len(m.stmts(rb))))]
        else:
            KT = kind_roles(F)[0]["path"]
            sw = [b for b in range(m.nblocks()) if m.term(b)["k"] == "switch" and not m.blocks[b].get("dead") and KT in (_discr_ty(m, b) or "")]
            if not sw:
                raise AnchorLost("branch on the default-disposition enum")
            vals = [e for b in sw for e in fl.term_operand(b, m.term(b)["d"])]
        d = deps(m, vals)
        consts = {(x[2] or "") for x in d if x[0] == "const" and x[2]}
        tables = {c for c in consts if c.startswith("signal_hook::") and c != DET and not c.split("::")[-1] in ("EINVAL",)}
        # string literals are constants without a definition path: found in the values themselves
        lits = []
        for e in vals:
            mentions(e, lambda x: lits.append(x) or False if (x[0] == "const" and x[2] is None and (x[3] or "").startswith("&") and "str" in (x[3] or "")) else False)
        if what == "name":
            # ... and the row it answers from is the one whose number equals the argument: assuming the comparison `row.number == signal` never
            # holds, no name is left to return
            from ..conds import switch_edges
            from .. import inline
            cut = set(); cmps = []
            for (b2, tgt_, lab, exprs, t2) in switch_edges(m):
                for e in exprs:
                    e = deep_strip(e)
                    if e[0] == "binop" and e[1] in ("Eq", "Ne"):
                        pair = (deep_strip(e[2]), deep_strip(e[3]))
                        if any(x == ("param", 1) for x in pair) and any(x[0] == "field" for x in pair):
                            val = int(lab[3:]) if lab.startswith("sw:") else None
                            is_true = (val is not None and val != 0) or (val is None and [v for v, _ in t2["vals"]] == [0])
                            if (e[1] == "Eq") == is_true:
                                cut.add((b2, tgt_))
                            cmps.append(t2.get("sp"))
            if cut:
                m2 = inline.assuming(F, m, cut)
                fl2 = flow(m2)
                live = cfg.reachable(m2, 0, unwind=False)
                left = [e for rb in m2.exits() if rb in live and not m2.blocks[rb].get("dead") for e in fl2.place({"l": 0, "p": []}, (rb, len(m2.stmts(rb))))]
                def is_none(e):
                    e = deep_strip(e)
                    return (e[0] == "const" and e[4] == "None") or (e[0] == "agg" and e[1][0] == "adt" and len(e[1]) > 2 and e[1][2] == "None")
                named = [show(e)[:100] for e in left if not infeasible(e) and not is_none(e)]
                ctx.check(not named, rid, "name-lookup:equality", "the name returned belongs to the row whose number equals the argument", m0.span,
                          {"comparisons": sorted(set(c for c in cmps if c)), "names_left_when_the_comparison_never_holds": named[:4]})
            else:
                ctx.ok(rid, "name-lookup:equality", "no equality scan between a row number and the argument in this shape of the lookup: polarity question does not arise", m0.span)
        ctx.check(DET in consts and not tables and not lits, rid, "%s-from-DETAILS" % what.replace(" ", "-"),
                  "the %s %s yields is read out of a DETAILS row" % (what, fname.split("::")[-1]), m0.span,
                  {"tables_consulted": sorted(consts), "other_tables": sorted(tables), "string_literals": [show(x) for x in lits][:4]})


def run(ctx):
    ctx.guarded("C16.d", rule_d)
    ctx.guarded("C16.c", rule_c)
    ctx.guarded("C16.a", rule_a)
    ctx.guarded("C16.b", rule_b)
    ctx.note("not decided: what the kernel actually does with the re-raised signal; orphaned process groups; real-time signals (not in the table)")
    ctx.assume("oracle/linux_default_dispositions.tsv and linux_signal_numbers.tsv transcribe the kernel's tables for x86_64 Linux")
