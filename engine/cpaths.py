"""Path conditions of a small C function (src/low_level/extract.c) from its clang AST — no execution.

`outcomes(F, fn)` enumerates the values the function can return, each with the list of (atomic comparison, polarity) that holds on the
path producing it. `&&`, `||`, `!` are decomposed; calls of file-local helper functions returning a truth value are opened up (their
own return paths are enumerated with the arguments substituted); `if`/`else`, early `return`, `continue`, `break` and a result variable
assigned on the way are understood. Loop bodies are treated per iteration (conditions established inside a loop do not survive it).
Expressions of the table's row type are canonicalised to `ROW` whichever way the row is addressed (`consts[i]`, `*entry`, `entry->`)."""

CASTS = ("ImplicitCastExpr", "ParenExpr", "CStyleCastExpr", "ConstantExpr")
_CX = [None]
_DEPTH = [0]


def strip(n):
    while n.get("kind") in CASTS:
        n = n["inner"][0]
    return n


def int_of(n):
    n = strip(n)
    k = n.get("kind")
    if k == "IntegerLiteral":
        return int(n["value"])
    if k == "UnaryOperator" and n.get("opcode") == "-":
        v = int_of(n["inner"][0])
        return None if v is None else -v
    if k == "CXXBoolLiteralExpr":
        return 1 if n.get("value") in (True, "true") else 0
    return None


def is_row_type(t):
    t = (t or "").replace("const ", "").strip()
    return t in ("struct Const", "struct Const *", "struct Const *const")


def expr(n, env):
    """canonical string of an expression; env: {parameter name: replacement string}"""
    n = strip(n)
    k = n.get("kind")
    if k == "IntegerLiteral":
        return n["value"]
    if k == "UnaryOperator":
        op = n.get("opcode")
        inner = expr(n["inner"][0], env)
        if op == "*" and inner == "ROW":
            return "ROW"
        return "%s%s" % (op, inner)
    if k == "DeclRefExpr":
        nm = n["ref"]["name"]
        if nm in env:
            return env[nm]
        if is_row_type(n.get("type")) and n["ref"]["kind"] in ("VarDecl", "ParmVarDecl"):
            return "ROW"
        cx = _CX[0]
        if cx is not None and n["ref"]["kind"] == "VarDecl" and nm in cx.vars[-1] and _DEPTH[0] < 6:
            init, ienv = cx.vars[-1][nm]          # a local initialised once and not reassigned stands for its initialiser
            _DEPTH[0] += 1
            try:
                return expr(init, ienv)
            finally:
                _DEPTH[0] -= 1
        return nm
    if k == "ArraySubscriptExpr":
        if is_row_type(n.get("type")):
            return "ROW"
        return "%s[%s]" % (expr(n["inner"][0], env), expr(n["inner"][1], env))
    if k == "MemberExpr":
        return "%s.%s" % (expr(n["inner"][0], env), n.get("name"))
    if k == "BinaryOperator":
        a, b = expr(n["inner"][0], env), expr(n["inner"][1], env)
        op = n.get("opcode")
        if op in ("==", "!=", "&&", "||", "+", "*", "&", "|"):
            a, b = sorted([a, b])
        return "(%s %s %s)" % (a, op, b)
    if k == "CallExpr":
        return "%s(%s)" % (expr(n["inner"][0], env), ", ".join(expr(x, env) for x in n["inner"][1:]))
    return str(k)


NEG = {"==": "!=", "!=": "==", "<": ">=", ">=": "<", ">": "<=", "<=": ">"}


def atom(n, env, pol):
    """(canonical comparison string, polarity) with `!=`/negation folded so that equalities are stated positively where possible"""
    n = strip(n)
    if n.get("kind") == "BinaryOperator" and n.get("opcode") == "!=":
        a, b = sorted([expr(n["inner"][0], env), expr(n["inner"][1], env)])
        return ("(%s == %s)" % (a, b), not pol)
    return (expr(n, env), pol)


class Ctx:
    def __init__(self, decls):
        self.fns = {d["name"]: d for d in decls if d.get("kind") == "FunctionDecl" and d.get("name")}
        self.depth = 0
        self.vars = [{}]          # per function being walked: local name -> (initialiser node, env) for locals initialised once


def branch(cx, n, env, conds):
    """(list of condition lists under which n is true, ... false)"""
    n = strip(n)
    k = n.get("kind")
    if k == "UnaryOperator" and n.get("opcode") == "!":
        t, f = branch(cx, n["inner"][0], env, conds)
        return f, t
    if k == "BinaryOperator" and n.get("opcode") == "&&":
        t1, f1 = branch(cx, n["inner"][0], env, conds)
        T = []; Fa = list(f1)
        for c in t1:
            t2, f2 = branch(cx, n["inner"][1], env, c)
            T += t2; Fa += f2
        return T, Fa
    if k == "BinaryOperator" and n.get("opcode") == "||":
        t1, f1 = branch(cx, n["inner"][0], env, conds)
        T = list(t1); Fa = []
        for c in f1:
            t2, f2 = branch(cx, n["inner"][1], env, c)
            T += t2; Fa += f2
        return T, Fa
    v = int_of(n)
    if v is not None:
        return ([conds] if v else []), ([] if v else [conds])
    if k == "DeclRefExpr" and n["ref"]["name"] in cx.vars[-1] and n["ref"]["name"] not in env:
        init, ienv = cx.vars[-1][n["ref"]["name"]]
        return branch(cx, init, ienv, conds)          # `c = lookup(..); if (c)`: the local stands for its initialiser
    if k == "UnaryOperator" and n.get("opcode") == "&":
        return [conds], []                            # an address is never null
    if k == "CallExpr":
        callee = strip(n["inner"][0])
        name = callee.get("ref", {}).get("name") if callee.get("kind") == "DeclRefExpr" else None
        fd = cx.fns.get(name)
        body = [x for x in (fd or {}).get("inner", []) if x.get("kind") == "CompoundStmt"]
        if fd is not None and body and cx.depth < 4:
            params = [x["name"] for x in fd.get("inner", []) if x.get("kind") == "ParmVarDecl"]
            sub = {p: expr(a, env) for p, a in zip(params, n["inner"][1:])}
            cx.depth += 1
            outs = outcomes_of(cx, fd, sub)
            cx.depth -= 1
            T = []; Fa = []
            for (hc, val) in outs:
                if val is None:
                    continue
                t2, f2 = branch(cx, val, sub, conds + hc)
                T += t2; Fa += f2
            return T, Fa
    a = atom(n, env, True)
    if a[0] == "ROW":
        return [conds], []                            # a pointer into the table is never null
    return [conds + [a]], [conds + [(a[0], not a[1])]]


def walk(cx, stmts, env, conds, out, assigns):
    """walk a statement list; returns the list of condition lists of paths that fall through. out: [(conds, value node or None)] returns;
    assigns: [(variable, conds, value node)]"""
    live = [conds]
    for s in stmts:
        if not live:
            break
        k = s.get("kind")
        nxt = []
        for c in live:
            if k == "ReturnStmt":
                val = s["inner"][0] if s.get("inner") else None
                sv = strip(val) if val is not None else None
                if sv is not None and sv.get("kind") == "ConditionalOperator" and len(sv.get("inner", [])) == 3:
                    t, f = branch(cx, sv["inner"][0], env, c)
                    for tc in t:
                        out.append((tc, sv["inner"][1]))
                    for fc in f:
                        out.append((fc, sv["inner"][2]))
                else:
                    out.append((c, val))
            elif k in ("ContinueStmt", "BreakStmt"):
                pass        # leaves the iteration: the path ends here as far as this statement list is concerned
            elif k == "CompoundStmt":
                nxt += walk(cx, s.get("inner", []), env, c, out, assigns)
            elif k == "IfStmt":
                inner = s["inner"]
                t, f = branch(cx, inner[0], env, c)
                for tc in t:
                    nxt += walk(cx, [inner[1]], env, tc, out, assigns)
                for fc in f:
                    if len(inner) > 2:
                        nxt += walk(cx, [inner[2]], env, fc, out, assigns)
                    else:
                        nxt.append(fc)
            elif k in ("ForStmt", "WhileStmt", "DoStmt"):
                body = [x for x in s.get("inner", []) if x.get("kind") == "CompoundStmt"] or [x for x in s.get("inner", [])[-1:] if x.get("kind")]
                walk(cx, body, env, c, out, assigns)
                nxt.append(c)      # after the loop: nothing established inside survives
            elif k == "DeclStmt":
                for v in s.get("inner", []):
                    if v.get("kind") == "VarDecl" and v.get("inner"):
                        assigns.append((v["name"], c, v["inner"][-1]))
                        cx.vars[-1][v["name"]] = (v["inner"][-1], dict(env))
                nxt.append(c)
            elif k == "BinaryOperator" and s.get("opcode") == "=":
                l = strip(s["inner"][0])
                if l.get("kind") == "DeclRefExpr":
                    assigns.append((l["ref"]["name"], c, s["inner"][1]))
                    cx.vars[-1].pop(l["ref"]["name"], None)        # re-assigned: no longer a name for its initialiser
                nxt.append(c)
            else:
                nxt.append(c)
        live = nxt
    return live


def outcomes_of(cx, fd, env):
    body = [x for x in fd.get("inner", []) if x.get("kind") == "CompoundStmt"]
    out = []; assigns = []
    cx.vars.append({})
    try:
        if body:
            walk(cx, body[0].get("inner", []), env, [], out, assigns)
    finally:
        cx.vars.pop()
    res = []
    for (c, val) in out:
        v = strip(val) if val is not None else None
        if v is not None and v.get("kind") == "DeclRefExpr" and v["ref"]["kind"] == "VarDecl" and any(a[0] == v["ref"]["name"] for a in assigns):
            for (nm, ac, av) in assigns:
                if nm == v["ref"]["name"]:
                    res.append((ac + [x for x in c if x not in ac], av))       # what held at the assignment and at the return
        else:
            res.append((c, val))
    return res


def outcomes(c_ast, fn_name):
    """[(conditions [(atom, polarity)], canonical value string, int value or None, line)] for every value `fn_name` can return"""
    cx = Ctx(c_ast["decls"])
    fd = cx.fns.get(fn_name)
    if fd is None:
        return None
    res = []
    _CX[0] = cx
    try:
        for (c, val) in outcomes_of(cx, fd, {}):
            if val is None:
                continue
            res.append((c, expr(val, {}), int_of(val), val.get("line")))
    finally:
        _CX[0] = None
    return res
