"""Obligation bookkeeping, known findings, evidence writer, runner."""
import json, os, sys, time, traceback

from .facts import Facts, AnchorLost

VERIF = os.path.dirname(os.path.dirname(os.path.abspath(__file__)))


class Ob:
    __slots__ = ("rule", "key", "what", "where", "ok", "detail")

    def __init__(self, rule, key, what, where, ok, detail):
        self.rule = rule; self.key = key; self.what = what; self.where = where; self.ok = ok; self.detail = detail

    def as_json(self):
        d = {"rule": self.rule, "key": self.key, "what": self.what, "status": "discharged" if self.ok else "VIOLATED"}
        if self.where:
            d["where"] = self.where
        if self.detail:
            d["detail"] = self.detail
        return d


class Ctx:
    def __init__(self, F, prop, tier):
        self.F = F; self.prop = prop; self.tier = tier
        self.obs = []
        self.rules = {}       # rule id -> text
        self.analysed = {"functions": set(), "call_sites": 0, "paths": 0}
        self.notes = []
        self.assumptions = []
        self.floors = {}      # rule id -> minimum number of instances
        self.dups = 0

    def rule(self, rid, text, floor=1):
        self.rules[rid] = text
        self.floors[rid] = floor

    def _add(self, ob):
        # monomorphic copies of one generic function give the same (rule, key, verdict): recorded once
        for o in self.obs:
            if o.rule == ob.rule and o.key == ob.key and o.ok == ob.ok:
                self.dups += 1
                return
        self.obs.append(ob)

    def ok(self, rule, key, what, where=None, detail=None):
        self._add(Ob(rule, key, what, where, True, detail))

    def bad(self, rule, key, what, where=None, detail=None):
        self._add(Ob(rule, key, what, where, False, detail))

    def check(self, cond, rule, key, what, where=None, detail=None):
        self._add(Ob(rule, key, what, where, bool(cond), None if cond else detail))
        return bool(cond)

    def fn(self, inst):
        self.analysed["functions"].add(inst.name)

    def note(self, s):
        self.notes.append(s)

    def assume(self, s):
        if s not in self.assumptions:
            self.assumptions.append(s)

    def guarded(self, rid, f, *a, **kw):
        """run a rule body; a lost anchor is a violation of that rule (fail closed)"""
        try:
            return f(self, *a, **kw)
        except AnchorLost as e:
            self.bad(rid, "anchor-lost:" + rid, "anchor lost: the rule can no longer vouch for this clause", None, str(e))
        except Exception as e:  # a crash of the analysis is never a pass
            self.bad(rid, "analysis-error:" + rid, "analysis error (fail closed)", None,
                     "%s: %s\n%s" % (type(e).__name__, e, traceback.format_exc()[-1500:]))

    def finish_floors(self):
        cnt = {}
        failed = set()
        for o in self.obs:
            cnt[o.rule] = cnt.get(o.rule, 0) + 1
            if not o.ok:
                failed.add(o.rule)
        for rid, fl in self.floors.items():
            if cnt.get(rid, 0) < fl and rid not in failed:
                self.bad(rid, "floor:" + rid, "rule matched %d instance(s), fewer than the %d confirmed by hand — rule went blind"
                         % (cnt.get(rid, 0), fl), None, "a rule that matches nothing must not pass vacuously")


def load_known():
    """known_findings.txt: lines `finding: property=<id> key=<key> <text>` suppress exactly that key;
    `fixed: ...` lines are a record only and suppress nothing."""
    p = os.path.join(VERIF, "known_findings.txt")
    out = {}
    if os.path.exists(p):
        for line in open(p):
            line = line.strip()
            if line.startswith("finding:"):
                parts = line[len("finding:"):].split()
                kv = dict(x.split("=", 1) for x in parts[:2] if "=" in x)
                if "property" in kv and "key" in kv:
                    out.setdefault(kv["property"], {})[kv["key"]] = " ".join(parts[2:])
    return out
