"""E3: reaching definitions and symbolic def-use slicing over MIR (no execution).

Expressions are nested tuples:
  ('const', val, defname, ty, variant)   ('param', n)            ('call', bb, callee_id, defpath)
  ('field', base, name, idx)             ('deref', base)         ('ref', base, 'mut'|'shared'|'raw')
  ('cast', base, ck, to)                 ('binop', op, a, b)     ('unop', op, a)
  ('discr', base)                        ('agg', desc, elems)    ('index', base, idx)
  ('cindex', base, i)                    ('downcast', base, v)   ('unknown', why)
"""

MAX_ALT = 12
MAX_DEPTH = 40


class Flow:
    def __init__(self, inst):
        self.inst = inst
        self.body = inst.body
        self.n = len(self.body["blocks"])
        self._rd_in = None
        self._sites = None

    # ------------------------------------------------------------------ reaching definitions
    def _block_defs(self, bb):
        """ordered list of (idx, local, exact) defs in block; idx = stmt index or len(stmts) for term"""
        out = []
        bl = self.body["blocks"][bb]
        for i, s in enumerate(bl["s"]):
            if s["k"] in ("assign", "setdiscr"):
                l = s["l"]
                if any(p["k"] == "deref" for p in l["p"]):
                    continue
                out.append((i, l["l"], len(l["p"]) == 0 and s["k"] == "assign"))
        t = bl["t"]
        if t["k"] == "call" and t.get("dest") is not None:
            d = t["dest"]
            if not any(p["k"] == "deref" for p in d["p"]):
                out.append((len(bl["s"]), d["l"], len(d["p"]) == 0))
        return out

    def _compute(self):
        """forward may-analysis; states are dicts local -> frozenset(def sites), shared structurally (never mutated in place)"""
        n = self.n
        entry = {}
        for l in range(1, self.body["argc"] + 1):
            entry[l] = frozenset([("entry", l)])
        IN = [None] * n
        IN[0] = entry
        bdefs = [self._block_defs(b) for b in range(n)]
        self._bdefs = bdefs
        succs = [self.inst.succ(b, True) for b in range(n)]
        # reverse post-order worklist
        work = [0]
        inwork = {0}
        OUT = [None] * n
        while work:
            b = work.pop()
            inwork.discard(b)
            st = IN[b]
            ds = bdefs[b]
            if ds:
                cur = dict(st)
                for (idx, l, exact) in ds:
                    if exact:
                        cur[l] = frozenset([(b, idx)])
                    else:
                        cur[l] = cur.get(l, frozenset()) | {(b, idx)}
            else:
                cur = dict(st)
            if OUT[b] is not None and cur == OUT[b]:
                continue
            OUT[b] = cur
            for s2 in succs[b]:
                tgt = IN[s2]
                if tgt is None:
                    IN[s2] = dict(cur)
                    if s2 not in inwork:
                        work.append(s2); inwork.add(s2)
                else:
                    ch = False
                    for k, v in cur.items():
                        old = tgt.get(k)
                        if old is None:
                            tgt[k] = v; ch = True
                        elif old is not v and not v <= old:
                            tgt[k] = old | v; ch = True
                    if ch and s2 not in inwork:
                        work.append(s2); inwork.add(s2)
        self._rd_in = IN

    def reaching(self, local, at):
        """def sites of `local` reaching position at=(bb, idx) (before executing stmt idx)"""
        if self._rd_in is None:
            self._compute()
        bb, idx = at
        st = self._rd_in[bb]
        if st is None:
            return set()
        cur = set(st.get(local, ()))
        for (i, l, exact) in self._bdefs[bb]:
            if i >= idx:
                break
            if l == local:
                if exact:
                    cur = {(bb, i)}
                else:
                    cur.add((bb, i))
        return cur

    # ------------------------------------------------------------------ expressions
    def const_expr(self, c):
        c = c["c"]
        return ("const", c.get("val"), c.get("def"), c.get("ty"), c.get("variant"), c.get("fn"), c.get("repr"))

    def operand(self, op, at, depth=0, seen=frozenset()):
        k = op["k"]
        if k == "const":
            return [self.const_expr(op)]
        if k in ("copy", "move"):
            return self.place(op["p"], at, depth, seen)
        return [("unknown", k)]

    def place(self, pl, at, depth=0, seen=frozenset()):
        if depth > MAX_DEPTH:
            return [("unknown", "depth")]
        l = pl["l"]; proj = pl["p"]
        # field-sensitive shortcut: partial defs `l.f = X` reaching here
        bases = None
        if proj and proj[0]["k"] == "field":
            sites = self.reaching(l, at)
            partial = []
            exact_sites = []
            for s in sites:
                if s[0] == "entry":
                    exact_sites.append(s); continue
                lhs = self._site_lhs(s)
                if lhs is not None and len(lhs["p"]) >= 1 and lhs["p"][0]["k"] == "field":
                    if lhs["p"][0]["i"] == proj[0]["i"] and len(lhs["p"]) == 1:
                        partial.append(s)
                else:
                    exact_sites.append(s)
            if partial and not exact_sites:
                alts = []
                for s in partial:
                    alts += self._site_value(s, depth + 1, seen)
                bases = alts
                proj = proj[1:]
        if bases is None:
            bases = self.local(l, at, depth, seen)
        out = []
        for b in bases[:MAX_ALT]:
            e = b
            for p in proj:
                e = self._project(e, p, at, depth, seen)
            out.append(e)
        return out

    def _project(self, e, p, at, depth, seen):
        k = p["k"]
        if k == "deref":
            if e[0] == "ref":
                return e[1]
            return ("deref", e)
        if k == "field":
            if e[0] == "agg" and p["i"] < len(e[2]) and e[1][0] in ("tuple", "closure", "array"):
                return e[2][p["i"]]
            # payload of an enum variant built right here: `(Some(x) as Some).0` is x
            if e[0] == "downcast" and e[1][0] == "agg" and e[1][1][0] == "adt" and e[1][1][2] == e[2] and p["i"] < len(e[1][2]) \
                    and e[1][1][1].startswith(("core::option::Option", "core::result::Result", "core::ops::control_flow::ControlFlow")):
                return e[1][2][p["i"]]
            return ("field", e, p["n"], p["i"], p.get("bt"))
        if k == "index":
            idx = self.local(p["l"], at, depth + 1, seen)
            i0 = idx[0] if idx else ("unknown", "idx")
            if e[0] == "repeat":
                return e[1]                       # `[x; N][i]` is x
            if e[0] == "agg" and e[1][0] == "array" and len(idx) == 1:
                iv = fold(i0)
                if isinstance(iv, int) and 0 <= iv < len(e[2]):
                    return e[2][iv]
            return ("index", e, i0)
        if k == "cindex":
            if e[0] == "repeat":
                return e[1]
            if e[0] == "agg" and e[1][0] == "array" and 0 <= p["i"] < len(e[2]) and not p.get("from_end"):
                return e[2][p["i"]]
            return ("cindex", e, p["i"])
        if k == "downcast":
            return ("downcast", e, p["v"])
        return ("unknown", "proj:" + k)

    def _site_lhs(self, site):
        bb, idx = site
        bl = self.body["blocks"][bb]
        if idx < len(bl["s"]):
            return bl["s"][idx]["l"]
        return bl["t"].get("dest")

    def _site_value(self, site, depth, seen):
        """value expression(s) assigned at a def site (for exact or field-partial defs)"""
        bb, idx = site
        bl = self.body["blocks"][bb]
        if idx < len(bl["s"]):
            s = bl["s"][idx]
            if s["k"] != "assign":
                return [("unknown", "setdiscr")]
            return self.rvalue(s["r"], (bb, idx), depth, seen)
        t = bl["t"]
        return [("call", bb, t.get("f"), t.get("def"))]

    def local(self, l, at, depth=0, seen=frozenset()):
        if depth > MAX_DEPTH:
            return [("unknown", "depth")]
        sites = self.reaching(l, at)
        if not sites:
            return [("unknown", "undef:_%d" % l)]
        out = []
        for s in sorted(sites, key=str):
            if s[0] == "entry":
                out.append(("param", s[1])); continue
            key = (l, s)
            if key in seen:
                out.append(("unknown", "cycle")); continue
            lhs = self._site_lhs(s)
            if lhs is not None and len(lhs["p"]) > 0:
                out.append(("partial", l, s)); continue
            out += self._site_value(s, depth + 1, seen | {key})
        # dedupe
        res = []
        for e in out:
            if e not in res:
                res.append(e)
        return res[:MAX_ALT]

    def rvalue(self, rv, at, depth=0, seen=frozenset()):
        k = rv["k"]
        if k == "use":
            return self.operand(rv["o"], at, depth, seen)
        if k == "ref":
            return [("ref", e, rv["m"]) for e in self.place(rv["p"], at, depth, seen)]
        if k == "rawptr":
            return [("ref", e, "raw") for e in self.place(rv["p"], at, depth, seen)]
        if k == "cast":
            return [("cast", e, rv.get("ck"), rv.get("to")) for e in self.operand(rv["o"], at, depth, seen)]
        if k == "binop":
            A = self.operand(rv["a"], at, depth, seen); B = self.operand(rv["b"], at, depth, seen)
            return [("binop", rv["op"], a, b) for a in A[:3] for b in B[:3]]
        if k == "unop":
            return [("unop", rv["op"], a) for a in self.operand(rv["a"], at, depth, seen)]
        if k == "discr":
            return [("discr", e) for e in self.place(rv["p"], at, depth, seen)]
        if k == "aggregate":
            ak = rv["ak"]
            if ak == "adt":
                desc = ("adt", rv["def"], rv["variant"], tuple(rv.get("args", [])), rv.get("vi"))
            elif ak == "closure":
                desc = ("closure", rv["def"], rv.get("ty"))
            else:
                desc = (ak,)
            alts = []
            for o in rv["ops"]:
                a = self.operand(o, at, depth, seen)
                alts.append(a[:4] if a else [("unknown", "op")])
            # one aggregate per combination of operand alternatives (bounded): `Some(x)` with x defined on two paths is two values
            combos = [()]
            for a in alts:
                nxt = []
                for c in combos:
                    for x in a:
                        nxt.append(c + (x,))
                        if len(nxt) >= 8:
                            break
                    if len(nxt) >= 8:
                        break
                combos = nxt
            return [("agg", desc, c) for c in combos]
        if k == "repeat":
            a = self.operand(rv["o"], at, depth, seen)
            return [("repeat", a[0] if a else ("unknown", "op"), rv["n"])]
        return [("unknown", k)]

    # convenience: operand of terminator
    def term_arg(self, bb, i):
        t = self.body["blocks"][bb]["t"]
        at = (bb, len(self.body["blocks"][bb]["s"]))
        return self.operand(t["args"][i], at)

    def term_operand(self, bb, op):
        at = (bb, len(self.body["blocks"][bb]["s"]))
        return self.operand(op, at)

    def term_place(self, bb, pl):
        at = (bb, len(self.body["blocks"][bb]["s"]))
        return self.place(pl, at)


_flows = {}


def flow(inst):
    f = _flows.get(id(inst))
    if f is None:
        f = Flow(inst); _flows[id(inst)] = f
    return f


# ---------------------------------------------------------------------- expression helpers
def strip(e):
    """remove value-preserving wrappers: casts (int/ptr), ref-of-deref, copies"""
    while True:
        if e[0] == "cast" and e[2] in ("IntToInt", "PtrToPtr", "Transmute", "PointerExposeProvenance",
                                       "PointerWithExposedProvenance", "reify", "MutToConstPointer",
                                       "FnPtrToPtr", "unsize", "ArrayToPointer"):
            e = e[1]; continue
        if e[0] == "ref" and e[1][0] == "deref":
            e = e[1][1]; continue
        if e[0] == "deref" and e[1][0] == "ref":
            e = e[1][1]; continue
        return e


def deep_strip(e):
    e = strip(e)
    if e[0] in ("field",):
        return ("field", deep_strip(e[1])) + tuple(e[2:])
    if e[0] in ("deref",):
        return strip(("deref", deep_strip(e[1])))
    if e[0] == "ref":
        return strip(("ref", deep_strip(e[1]), e[2]))
    if e[0] == "cast":
        return ("cast", deep_strip(e[1])) + tuple(e[2:])
    if e[0] == "binop":
        return ("binop", e[1], deep_strip(e[2]), deep_strip(e[3]))
    if e[0] == "unop":
        return ("unop", e[1], deep_strip(e[2]))
    if e[0] in ("index",):
        return ("index", deep_strip(e[1]), deep_strip(e[2]))
    if e[0] in ("cindex", "downcast", "discr"):
        return (e[0], deep_strip(e[1])) + tuple(e[2:])
    return e


def const_val(e):
    e = strip(e)
    if e[0] == "const":
        return e[1]
    return None


def fold(e, width=64):
    """constant folding of integer expression trees; returns int or None"""
    e = strip(e)
    if e[0] == "const":
        return e[1]
    if e[0] == "cast":
        return fold(e[1])
    if e[0] == "binop":
        a = fold(e[2]); b = fold(e[3])
        if a is None or b is None:
            return None
        op = e[1]
        try:
            if op in ("BitOr",): return a | b
            if op in ("BitAnd",): return a & b
            if op in ("BitXor",): return a ^ b
            if op.startswith("Add"): return a + b
            if op.startswith("Sub"): return a - b
            if op.startswith("Mul"): return a * b
            if op.startswith("Shl"): return a << b
            if op.startswith("Shr"): return a >> b
            if op == "Eq": return int(a == b)
            if op == "Ne": return int(a != b)
            if op == "Lt": return int(a < b)
            if op == "Le": return int(a <= b)
            if op == "Gt": return int(a > b)
            if op == "Ge": return int(a >= b)
            if op == "Rem": return a % b if b else None
            if op == "Div": return a // b if b else None
        except Exception:
            return None
    if e[0] == "unop" and e[1] == "Not":
        a = fold(e[2])
        return None if a is None else (~a)
    return None


def infeasible(e):
    """does the expression project a variant out of a value that is statically a *different* variant (`(None as Some).0`)? Such
    alternatives come from joins the CFG cannot tell apart; they denote no run-time value."""
    def bad(x):
        if x[0] != "downcast":
            return False
        b = deep_strip(x[1])
        if b[0] == "agg" and b[1][0] == "adt" and b[1][2] is not None:
            return b[1][2] != x[2]
        if b[0] == "const" and b[4] is not None:
            return b[4] != x[2]
        return False
    return mentions(e, bad)


def mentions(e, pred):
    """does any sub-expression satisfy pred?"""
    if pred(e):
        return True
    for x in e[1:]:
        if isinstance(x, tuple) and x and isinstance(x[0], str):
            if mentions(x, pred):
                return True
        elif isinstance(x, tuple):
            for y in x:
                if isinstance(y, tuple) and y and isinstance(y[0], str) and mentions(y, pred):
                    return True
    return False


def is_param(e, n=None):
    e = strip(e)
    return e[0] == "param" and (n is None or e[1] == n)


def field_path(e):
    """('field',('deref',('param',1)),'x') -> (root_expr, ['x', ...]) following field/deref/ref/cast"""
    names = []
    while True:
        e = strip(e)
        if e[0] == "field":
            names.append(e[2]); e = e[1]
        elif e[0] in ("deref",):
            e = e[1]
        elif e[0] == "ref":
            e = e[1]
        elif e[0] in ("downcast",):
            names.append("as:" + str(e[2])); e = e[1]
        elif e[0] in ("index", "cindex"):
            names.append("[]"); e = e[1]
        else:
            break
    names.reverse()
    return e, names


def show(e, depth=0):
    if depth > 8:
        return "…"
    k = e[0]
    if k == "const":
        if e[2]:
            return "%s(=%s)" % (e[2].split("::")[-1], e[1])
        if e[4]:
            return str(e[4])
        return str(e[1]) if e[1] is not None else str(e[6])
    if k == "param":
        return "arg%d" % e[1]
    if k == "call":
        return "call@bb%d(%s)" % (e[1], (e[3] or "?").split("::")[-1])
    if k == "field":
        return "%s.%s" % (show(e[1], depth + 1), e[2])
    if k == "deref":
        return "*%s" % show(e[1], depth + 1)
    if k == "ref":
        return "&%s" % show(e[1], depth + 1)
    if k == "cast":
        return "(%s as %s)" % (show(e[1], depth + 1), e[3])
    if k == "binop":
        return "(%s %s %s)" % (show(e[2], depth + 1), e[1], show(e[3], depth + 1))
    if k == "unop":
        return "%s(%s)" % (e[1], show(e[2], depth + 1))
    if k == "discr":
        return "discr(%s)" % show(e[1], depth + 1)
    if k == "agg":
        return "%s{%s}" % (e[1][-1] if e[1][0] != "adt" else e[1][1].split("::")[-1] + "::" + e[1][2],
                           ", ".join(show(x, depth + 1) for x in e[2]))
    if k == "index":
        return "%s[%s]" % (show(e[1], depth + 1), show(e[2], depth + 1))
    if k == "cindex":
        return "%s[%d]" % (show(e[1], depth + 1), e[2])
    if k == "downcast":
        return "(%s as %s)" % (show(e[1], depth + 1), e[2])
    return "?" + str(e[1:])[:40]


def deps(inst, exprs, follow=lambda d: True, _seen=None, depth=0):
    """data-dependence closure of expressions: set of ('call', bb) / ('param', n) / ('field', name) / ('const', v) atoms,
    following call results into the call's arguments when follow(callee def path) is true."""
    out = set()
    seen = _seen if _seen is not None else set()
    fl = flow(inst)

    def walk(e, d):
        if d > 60 or not isinstance(e, tuple) or not e:
            return
        k = e[0]
        if k == "call":
            out.add(("call", e[1]))
            if (inst.id, e[1]) in seen:
                return
            seen.add((inst.id, e[1]))
            if follow(e[3] or ""):
                t = inst.term(e[1])
                for i in range(len(t.get("args", []))):
                    for a in fl.term_arg(e[1], i):
                        walk(a, d + 1)
            return
        if k == "param":
            out.add(("param", e[1])); return
        if k == "const":
            out.add(("const", e[1], e[2])); return
        if k == "field":
            out.add(("field", e[2], e[4]))
        if k == "partial":
            # aggregate built field by field: include all partial defs
            return
        for x in e[1:]:
            if isinstance(x, tuple) and x and isinstance(x[0], str) and x[0] in (
                    "const", "param", "call", "field", "deref", "ref", "cast", "binop", "unop", "discr", "agg", "index", "cindex",
                    "downcast", "unknown", "repeat", "partial"):
                walk(x, d + 1)
            elif isinstance(x, tuple):
                for y in x:
                    if isinstance(y, tuple) and y and isinstance(y[0], str):
                        walk(y, d + 1)
    for e in exprs:
        walk(e, depth)
    return out


def partial_fields(inst, local, at):
    """fields of a local assigned one by one (C structs): {field name: [exprs]} for partial defs reaching `at`"""
    fl = flow(inst)
    out = {}
    for s in fl.reaching(local, at):
        if s[0] == "entry":
            continue
        lhs = fl._site_lhs(s)
        if lhs is None or not lhs["p"] or lhs["p"][0]["k"] != "field":
            continue
        name = ".".join(p["n"] for p in lhs["p"] if p["k"] == "field")
        out.setdefault(name, [])
        out[name] += fl._site_value(s, 0, frozenset())
    return out


def pointee_local(inst, exprs):
    """if the expression is `&local` / `&raw local` (possibly through casts) return that local"""
    for e in exprs:
        e = deep_strip(e)
        while e[0] in ("ref", "cast"):
            e = deep_strip(e[1])
        if e[0] == "partial":
            return e[1]
    return None


def eval_on_discriminant(inst, d, param=1, max_steps=400):
    """constant propagation of a call-free function of one fieldless-enum argument for a fixed discriminant value:
    returns the constant left in the return place, or None when it is not determined (no code is run: this walks the CFG
    with a constant environment)."""
    env = {}
    bb = 0
    steps = 0

    def opv(o):
        if o["k"] == "const":
            return o["c"].get("val")
        if o["k"] in ("copy", "move") and not o["p"]["p"]:
            return env.get(o["p"]["l"])
        return None
    while steps < max_steps:
        steps += 1
        bl = inst.body["blocks"][bb]
        for s in bl["s"]:
            if s["k"] != "assign" or s["l"]["p"]:
                continue
            r = s["r"]; v = None
            if r["k"] == "discr" and r["p"]["l"] == param and not [p for p in r["p"]["p"] if p["k"] != "deref"]:
                v = d
            elif r["k"] == "use":
                v = opv(r["o"])
            elif r["k"] == "unop" and r["op"] == "Not":
                a = opv(r["a"])
                v = None if a is None else (0 if a else 1)
            elif r["k"] == "binop":
                a, b = opv(r["a"]), opv(r["b"])
                if a is not None and b is not None:
                    op = r["op"]
                    v = {"Eq": int(a == b), "Ne": int(a != b), "Lt": int(a < b), "Le": int(a <= b), "Gt": int(a > b), "Ge": int(a >= b),
                         "BitAnd": a & b, "BitOr": a | b, "BitXor": a ^ b}.get(op)
            elif r["k"] == "cast":
                v = opv(r["o"])
            env[s["l"]["l"]] = v
        t = bl["t"]
        if t["k"] == "goto":
            bb = t["ret"]
        elif t["k"] == "switch":
            v = opv(t["d"])
            if v is None:
                return None
            nxt = t["else"]
            for val, tg in t["vals"]:
                if val == v:
                    nxt = tg
            bb = nxt
        elif t["k"] == "return":
            return env.get(0)
        else:
            return None
    return None
