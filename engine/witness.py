"""E7: compile_fail witnesses with compiling twins (thorough tier). rustdoc compiles them; nothing is executed (twins are no_run)."""
import os, re, shutil, subprocess, tempfile

VERIF = os.path.dirname(os.path.dirname(os.path.abspath(__file__)))


def run(repo="/repo"):
    """returns (ok, {'passed': n, 'failed': [...], 'log': tail})"""
    tmp = tempfile.mkdtemp(prefix="shv-witness-")
    try:
        w = os.path.join(tmp, "w"); os.makedirs(os.path.join(w, "src"))
        open(os.path.join(w, "Cargo.toml"), "w").write(open(os.path.join(VERIF, "witness", "Cargo.toml.in")).read().replace("@REPO@", os.path.abspath(repo)))
        shutil.copy(os.path.join(VERIF, "witness", "lib.rs"), os.path.join(w, "src", "lib.rs"))
        lock = os.path.join(repo, "Cargo.lock")
        if os.path.exists(lock):
            shutil.copy(lock, os.path.join(w, "Cargo.lock"))
        env = dict(os.environ, CARGO_NET_OFFLINE="true", CARGO_TARGET_DIR=os.path.join(tmp, "target"))
        env.pop("RUSTC_WRAPPER", None)
        r = subprocess.run(["cargo", "+nightly", "test", "--doc", "--offline"], cwd=w, env=env, capture_output=True, text=True)
        out = r.stdout + r.stderr
        res = re.findall(r"^test (\S.*?) \.\.\. (ok|FAILED)", out, re.M)
        passed = [n for n, s in res if s == "ok"]; failed = [n for n, s in res if s != "ok"]
        return (r.returncode == 0 and len(passed) >= 12 and not failed), {"passed": len(passed), "failed": failed, "tests": [n for n, _ in res], "log": out[-1500:] if r.returncode != 0 else ""}
    finally:
        shutil.rmtree(tmp, ignore_errors=True)


if __name__ == "__main__":
    import json, sys
    ok, d = run(sys.argv[1] if len(sys.argv) > 1 else "/repo")
    print(ok, json.dumps(d, indent=1))
