"""Fact loader: monomorphic instances with MIR bodies + def-level crate facts.

All facts are produced by driver/ (rustc_private) from the type-checked program; nothing here
runs any analysed code.
"""
import json, os, re

WS_CRATES = ["signal_hook", "signal_hook_registry", "signal_hook_tokio", "signal_hook_mio",
             "signal_hook_async_std"]


class AnchorLost(Exception):
    """An entity a rule needs could not be located: the check fails closed."""


def strip_generics(s):
    """`a::B::<T>::f` / `a::B<T>::f`  ->  `a::B::f` (balanced <> removed)."""
    out, depth, i = [], 0, 0
    while i < len(s):
        c = s[i]
        if c == '<':
            # keep `<impl ...>` / `<T as Trait>` qualified-self segments textually but flattened
            depth += 1
        elif c == '>':
            if i > 0 and s[i - 1] == '-':      # `->`
                if depth == 0:
                    out.append(c)
            else:
                depth -= 1
        elif depth == 0:
            out.append(c)
        i += 1
    r = ''.join(out)
    return r.replace('::::', '::').rstrip(':')


def keyname(name):
    """instance name with turbofish generic arguments removed (`a::B::<T>::f` -> `a::B::f`); qualified `<T as Trait>`
    segments are kept, so different impls of one trait method keep different keys"""
    out = []; i = 0; n = len(name)
    while i < n:
        if name.startswith("::<", i):
            depth = 0; j = i + 2
            while j < n:
                if name[j] == "<":
                    depth += 1
                elif name[j] == ">" and name[j - 1] != "-":
                    depth -= 1
                    if depth == 0:
                        break
                j += 1
            i = j + 1
            continue
        out.append(name[i]); i += 1
    r = "".join(out)
    r = r.replace("libc::unix::linux_like::linux::gnu::b64::x86_64::", "libc::")
    return r


class Inst:
    __slots__ = ("id", "name", "defp", "crate", "kind", "local", "args", "span", "body", "raw",
                 "symbol", "drop_ty", "impls", "dyn", "parent", "_succ", "_pred", "_edges")

    def __init__(self, d):
        self.raw = d
        self.id = d["id"]; self.name = d["name"]; self.defp = d["def"]; self.crate = d["crate"]
        self.kind = d["kind"]; self.local = d["local"]; self.args = d["args"]; self.span = d["span"]
        self.body = d.get("body"); self.symbol = d.get("symbol"); self.drop_ty = d.get("drop_ty")
        self.impls = d.get("impls"); self.dyn = d.get("dyn"); self.parent = d.get("parent")
        self._succ = None; self._pred = None; self._edges = None

    def __repr__(self):
        return "<%d %s>" % (self.id, self.name)

    # ---- CFG helpers ---------------------------------------------------------------------
    @property
    def blocks(self):
        return self.body["blocks"]

    def nblocks(self):
        return len(self.body["blocks"])

    def term(self, bb):
        return self.body["blocks"][bb]["t"]

    def stmts(self, bb):
        return self.body["blocks"][bb]["s"]

    def local_ty(self, l):
        return self.body["locals"][l]

    def succ_labeled(self, bb):
        """[(succ, label)], label in ret|unw|goto|sw:<v>|else|asm"""
        t = self.term(bb); k = t["k"]; out = []
        if k in ("goto",):
            out.append((t["ret"], "goto"))
        elif k == "switch":
            for v, b in t["vals"]:
                out.append((b, "sw:%d" % v))
            out.append((t["else"], "else"))
        elif k in ("call", "drop", "assert"):
            if t.get("ret") is not None:
                out.append((t["ret"], "ret"))
            u = t.get("unw")
            if isinstance(u, int):
                out.append((u, "unw"))
        elif k == "asm":
            for b in t.get("targets", []):
                out.append((b, "asm"))
            u = t.get("unw")
            if isinstance(u, int):
                out.append((u, "unw"))
        return out

    def succ(self, bb, unwind=True):
        return [b for b, l in self.succ_labeled(bb) if unwind or l != "unw"]

    def preds(self, unwind=True):
        n = self.nblocks(); p = [[] for _ in range(n)]
        for b in range(n):
            for s in self.succ(b, unwind):
                p[s].append(b)
        return p

    def calls(self):
        """yield (bb, term) for call terminators"""
        for b, bl in enumerate(self.body["blocks"]):
            if bl["t"]["k"] == "call":
                yield b, bl["t"]

    def drops(self):
        for b, bl in enumerate(self.body["blocks"]):
            if bl["t"]["k"] == "drop":
                yield b, bl["t"]

    def exits(self):
        """blocks whose terminator leaves the function normally"""
        return [b for b, bl in enumerate(self.body["blocks"]) if bl["t"]["k"] == "return"]

    def resume_blocks(self):
        return [b for b, bl in enumerate(self.body["blocks"]) if bl["t"]["k"] == "resume"]


class Facts:
    def __init__(self, facts_dir):
        self.dir = facts_dir
        with open(os.path.join(facts_dir, "mono.json")) as f:
            m = json.load(f)
        self.inst = [Inst(d) for d in m["instances"]]
        self.roots = m["roots"]
        self.dyn_impls = m["dyn_impls"]
        self.unsize = m["unsize"]
        self.unresolved = m["unresolved"]
        self.crates = {}
        for c in WS_CRATES:
            p = os.path.join(facts_dir, "crate_%s.json" % c)
            if os.path.exists(p):
                with open(p) as f:
                    self.crates[c] = json.load(f)
        cpath = os.path.join(facts_dir, "extract_c.json")
        self.c_ast = json.load(open(cpath)) if os.path.exists(cpath) else None
        meta = os.path.join(facts_dir, "meta.json")
        self.meta = json.load(open(meta)) if os.path.exists(meta) else {}
        self.by_def = {}
        for i in self.inst:
            self.by_def.setdefault(i.defp, []).append(i)
        self._callers = None

    # ---- lookup --------------------------------------------------------------------------
    def find(self, defp=None, name_re=None, kind=None, local=None, has_body=None):
        out = []
        src = self.by_def.get(defp, []) if defp is not None else self.inst
        for i in src:
            if name_re is not None and not re.search(name_re, i.name):
                continue
            if kind is not None and i.kind != kind:
                continue
            if local is not None and i.local != local:
                continue
            if has_body is not None and (i.body is not None) != has_body:
                continue
            out.append(i)
        return out

    def one(self, defp=None, name_re=None, what=None, **kw):
        r = self.find(defp, name_re, **kw)
        if len(r) != 1:
            raise AnchorLost("expected exactly one instance of %s, found %d (%s)" % (
                what or defp or name_re, len(r), [x.name for x in r][:4]))
        return r[0]

    def some(self, defp=None, name_re=None, what=None, **kw):
        r = self.find(defp, name_re, **kw)
        if not r:
            raise AnchorLost("no instance of %s in the monomorphic program" % (what or defp or name_re))
        return r

    # ---- call graph ----------------------------------------------------------------------
    def edges(self, inst):
        """[(callee_id, kind, bb)] kind in call|drop|virtual|reify; virtual nodes expand to impls"""
        if inst._edges is not None:
            return inst._edges
        out = []
        if inst.kind == "virtual":
            for tid, via in inst.impls or []:
                out.append((tid, "virtual", -1))
        elif inst.body is not None:
            for b, bl in enumerate(inst.body["blocks"]):
                t = bl["t"]
                if t["k"] == "call":
                    if t.get("f") is not None:
                        out.append((t["f"], "call", b))
                    else:
                        out.append((None, "indirect", b))
                    # function items / closures passed by value are not calls; reify handled below
                elif t["k"] == "drop":
                    out.append((t["f"], "drop", b))
                for s in bl["s"]:
                    if s["k"] == "assign" and s["r"]["k"] == "cast" and s["r"].get("ck") in ("reify", "closure_fnptr") \
                            and s["r"].get("fn") is not None:
                        out.append((s["r"]["fn"], "reify", b))
        inst._edges = out
        return out

    def callers(self):
        if self._callers is None:
            c = {}
            for i in self.inst:
                for (t, k, b) in self.edges(i):
                    if t is not None:
                        c.setdefault(t, []).append((i.id, k, b))
            self._callers = c
        return self._callers

    def reach(self, roots, stop=lambda i: False, follow_reify=False):
        """BFS over the call graph. Returns parent map {id: (parent_id, kind, bb)} (roots -> None)."""
        parent = {}
        q = []
        for r in roots:
            rid = r.id if isinstance(r, Inst) else r
            if rid not in parent:
                parent[rid] = None; q.append(rid)
        while q:
            cur = q.pop(0)
            ci = self.inst[cur]
            if stop(ci):
                continue
            for (t, k, b) in self.edges(ci):
                if t is None:
                    continue
                if k == "reify" and not follow_reify:
                    continue
                if t not in parent:
                    parent[t] = (cur, k, b); q.append(t)
        return parent

    def chain(self, parent, target):
        """call chain root -> target as list of (inst, kind, span)"""
        out = []; cur = target
        while cur is not None:
            p = parent.get(cur)
            if p is None:
                out.append((self.inst[cur], None, None)); break
            pi = self.inst[p[0]]
            sp = pi.term(p[2])["sp"] if (pi.body is not None and p[2] >= 0) else ""
            out.append((self.inst[cur], p[1], sp))
            cur = p[0]
        out.reverse()
        return out

    # ---- crate-level ---------------------------------------------------------------------
    def crate_items(self, kind):
        """yield (crate, item) with full path in item['fpath']"""
        for c, d in self.crates.items():
            for it in d[kind]:
                it.setdefault("fpath", it.get("path"))
                yield c, it

    def const(self, fpath):
        for c, it in self.crate_items("consts"):
            if it["fpath"] == fpath:
                return it
        raise AnchorLost("const %s not found" % fpath)

    def adt(self, fpath):
        for c, it in self.crate_items("adts"):
            if it["fpath"] == fpath:
                return it
        raise AnchorLost("type %s not found" % fpath)


def short(span):
    """/repo/x/y.rs:1:2 -> x/y.rs:1 relative to the analysed repo"""
    return span
