"""Control-flow graph utilities over MIR bodies (dominators, post-dominators, loops, path queries)."""


def _reach(succ, start, avoid=()):
    seen = set(); st = [start] if start not in avoid else []
    while st:
        b = st.pop()
        if b in seen:
            continue
        seen.add(b)
        for s in succ(b):
            if s not in seen and s not in avoid:
                st.append(s)
    return seen


def reachable(inst, start=0, avoid=(), unwind=True):
    """blocks reachable from `start` without entering any block in `avoid` (start itself included)"""
    return _reach(lambda b: inst.succ(b, unwind), start, set(avoid))


def reachable_after(inst, bb, avoid=(), unwind=True, labels=None):
    """blocks reachable from the successors of bb (bb's own terminator has completed).
    labels: restrict the first step to successor edges with these labels."""
    out = set()
    for s, l in inst.succ_labeled(bb):
        if labels is not None and l not in labels and not any(l.startswith(x) for x in labels):
            continue
        if not unwind and l == "unw":
            continue
        if s in avoid:
            continue
        out |= _reach(lambda b: inst.succ(b, unwind), s, set(avoid))
    return out


def dominators(inst, unwind=True, entry=0):
    """dom[b] = set of blocks dominating b (including b); unreachable blocks get empty set."""
    n = inst.nblocks()
    reach = reachable(inst, entry, (), unwind)
    preds = inst.preds(unwind)
    dom = {b: set(reach) for b in reach}
    dom[entry] = {entry}
    order = _rpo(inst, entry, unwind)
    changed = True
    while changed:
        changed = False
        for b in order:
            if b == entry:
                continue
            ps = [p for p in preds[b] if p in reach]
            new = set.intersection(*[dom[p] for p in ps]) if ps else set()
            new = new | {b}
            if new != dom[b]:
                dom[b] = new; changed = True
    for b in range(n):
        dom.setdefault(b, set())
    return dom


def _rpo(inst, entry, unwind):
    seen = set(); order = []
    st = [(entry, iter(inst.succ(entry, unwind)))]
    seen.add(entry)
    while st:
        b, it = st[-1]
        adv = False
        for s in it:
            if s not in seen:
                seen.add(s); st.append((s, iter(inst.succ(s, unwind)))); adv = True; break
        if not adv:
            order.append(b); st.pop()
    order.reverse()
    return order


def postdominators(inst, exits, unwind=False):
    """pdom[b] = set of blocks that appear on every path from b to one of `exits`
    (paths that never reach an exit — diverging calls, unwinding when unwind=False — are ignored)."""
    n = inst.nblocks()
    succs = {b: inst.succ(b, unwind) for b in range(n)}
    # blocks that can reach an exit
    preds = inst.preds(unwind)
    can = set(); st = list(exits)
    while st:
        b = st.pop()
        if b in can:
            continue
        can.add(b)
        st.extend(preds[b])
    pdom = {b: set(can) for b in can}
    for e in exits:
        pdom[e] = {e}
    changed = True
    while changed:
        changed = False
        for b in can:
            if b in exits:
                continue
            ss = [s for s in succs[b] if s in can]
            new = set.intersection(*[pdom[s] for s in ss]) if ss else set()
            new = new | {b}
            if new != pdom[b]:
                pdom[b] = new; changed = True
    for b in range(n):
        pdom.setdefault(b, set())
    return pdom


def sccs(inst, unwind=True):
    """Tarjan; returns list of SCCs (lists of blocks). Cycles = SCCs with >1 block or a self loop."""
    n = inst.nblocks()
    index = {}; low = {}; onst = set(); st = []; out = []; counter = [0]
    import sys
    sys.setrecursionlimit(10000)

    def strong(v):
        index[v] = low[v] = counter[0]; counter[0] += 1
        st.append(v); onst.add(v)
        for w in inst.succ(v, unwind):
            if w not in index:
                strong(w); low[v] = min(low[v], low[w])
            elif w in onst:
                low[v] = min(low[v], index[w])
        if low[v] == index[v]:
            comp = []
            while True:
                w = st.pop(); onst.discard(w); comp.append(w)
                if w == v:
                    break
            out.append(comp)
    for v in range(n):
        if v not in index:
            strong(v)
    return out


def cycles(inst, unwind=True):
    """list of sets of blocks forming cycles (non-trivial SCCs)"""
    res = []
    for comp in sccs(inst, unwind):
        if len(comp) > 1 or comp[0] in inst.succ(comp[0], unwind):
            res.append(set(comp))
    return res


def in_cycle(inst, bb, unwind=True):
    for c in cycles(inst, unwind):
        if bb in c:
            return True
    return False


def every_path_passes(inst, src_after, targets, through, unwind=True):
    """True iff every path from the completion of block `src_after` to any block in `targets`
    passes through a block in `through` (i.e. targets unreachable when `through` is removed)."""
    r = reachable_after(inst, src_after, avoid=set(through), unwind=unwind)
    return not (r & set(targets)), sorted(r & set(targets))


def path(inst, src, dst, avoid=(), unwind=True):
    """some path src..dst (list of blocks) avoiding `avoid`, or None"""
    from collections import deque
    prev = {src: None}; q = deque([src])
    while q:
        b = q.popleft()
        if b == dst:
            out = []
            while b is not None:
                out.append(b); b = prev[b]
            return out[::-1]
        for s in inst.succ(b, unwind):
            if s not in prev and s not in avoid:
                prev[s] = b; q.append(s)
    return None


def reachable_without_edges(inst, start, drop, avoid=(), unwind=False):
    """blocks reachable from `start` when the edges in `drop` ({(src, dst)}) are removed and blocks in `avoid` are not entered"""
    seen = set(); st = [start] if start not in avoid else []
    while st:
        b = st.pop()
        if b in seen:
            continue
        seen.add(b)
        for s in inst.succ(b, unwind):
            if (b, s) in drop or s in avoid or s in seen:
                continue
            st.append(s)
    return seen
