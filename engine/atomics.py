"""E4: inventory of atomic operations with their declared orderings (traced to constants by E3)."""
import re
from .flow import flow, deep_strip, strip, show, field_path

ATOMIC_RE = re.compile(r"^core::sync::atomic::Atomic::<(.*)>::(load|store|swap|compare_exchange|compare_exchange_weak|compare_and_swap|"
                       r"fetch_add|fetch_sub|fetch_and|fetch_nand|fetch_or|fetch_xor|fetch_update|fetch_max|fetch_min|fetch_not|"
                       r"get_mut|into_inner|as_ptr|fetch_ptr_add|fetch_byte_add)$")
# the free functions the methods bottom out in (visible when a std RMW helper such as fetch_update/try_update is opened up by inlining)
ATOMIC_FREE_RE = re.compile(r"^core::sync::atomic::atomic_(load|store|swap|compare_exchange|compare_exchange_weak|add|sub|and|nand|or|xor|max|min|umax|umin)::<(.*)>$")
FREE_OP = {"load": "load", "store": "store", "swap": "swap", "compare_exchange": "compare_exchange", "compare_exchange_weak": "compare_exchange_weak",
           "add": "fetch_add", "sub": "fetch_sub", "and": "fetch_and", "nand": "fetch_nand", "or": "fetch_or", "xor": "fetch_xor", "max": "fetch_max",
           "min": "fetch_min", "umax": "fetch_max", "umin": "fetch_min"}
STRENGTH = {"Relaxed": 0, "Release": 1, "Acquire": 1, "AcqRel": 2, "SeqCst": 3}


def ordering_names(exprs):
    out = []
    for e in exprs:
        e = deep_strip(e)
        if e[0] == "agg" and e[1][0] == "adt" and e[1][1].endswith("atomic::Ordering"):
            out.append(e[1][2])
        elif e[0] == "const" and e[4]:
            out.append(e[4])
        else:
            out.append("?" + show(e))
    return out


class Site:
    __slots__ = ("inst", "bb", "op", "aty", "recv", "orders", "sp", "term")

    def __repr__(self):
        return "<%s %s %s %s>" % (self.op, self.aty, [show(r) for r in self.recv][:1], self.orders)


def sites(F, m):
    out = []
    if m.body is None:
        return out
    for bb, t in m.calls():
        if t.get("f") is None:
            continue
        ci = F.inst[t["f"]]
        mm = ATOMIC_RE.match(ci.defp)
        if not mm:
            fm = ATOMIC_FREE_RE.match(ci.name)
            if not fm:
                continue
            s = Site()
            s.inst = m; s.bb = bb; s.op = FREE_OP[fm.group(1)]; s.term = t; s.sp = t["sp"]
            s.aty = fm.group(2)
        else:
            s = Site()
            s.inst = m; s.bb = bb; s.op = mm.group(2); s.term = t; s.sp = t["sp"]
            s.aty = ci.args[0] if (ci.args and "T" in mm.group(1)) else mm.group(1)
            if mm.group(1) == "*mut T" and ci.args:
                s.aty = "*mut " + ci.args[0]
        fl = flow(m)
        s.recv = [deep_strip(e) for e in fl.term_arg(bb, 0)]
        n = len(t["args"])
        if s.op in ("compare_exchange", "compare_exchange_weak"):
            s.orders = [ordering_names(fl.term_arg(bb, 3)), ordering_names(fl.term_arg(bb, 4))]
        elif s.op in ("load",):
            s.orders = [ordering_names(fl.term_arg(bb, 1))]
        elif s.op in ("get_mut", "into_inner", "as_ptr"):
            s.orders = []
        elif s.op == "fetch_update":
            s.orders = [ordering_names(fl.term_arg(bb, 1)), ordering_names(fl.term_arg(bb, 2))]
        else:
            s.orders = [ordering_names(fl.term_arg(bb, n - 1))]
        out.append(s)
    return out


def recv_field(site):
    """(base type, field name) of the atomic the operation is applied to, or (None, None)"""
    for e in site.recv:
        x = e
        while x[0] in ("ref", "deref", "index", "cindex"):
            x = x[1]
        if x[0] == "field":
            return x[4], x[2]
    return None, None


def at_least(names, minimum, role):
    """role: 'load' (Acquire side), 'store' (Release side), 'rmw' (either side counts), 'any'"""
    if not names:
        return False
    for n in names:
        if n.startswith("?"):
            return False
        if minimum == "Relaxed":
            continue
        if minimum == "SeqCst":
            if n != "SeqCst":
                return False
        elif minimum == "Acquire":
            if n not in ("Acquire", "AcqRel", "SeqCst"):
                return False
        elif minimum == "Release":
            if n not in ("Release", "AcqRel", "SeqCst"):
                return False
        elif minimum == "AcqRel":
            if n not in ("AcqRel", "SeqCst"):
                return False
    return True
