"""E8: MIR-level inlining of workspace-local helpers (normal form for rules that reason about one function's paths).

`norm(F, inst, keep)` returns an Inst-like object whose body is `inst`'s MIR with every resolved call to a
workspace-local function that has MIR spliced in (recursively, bounded), except callees for which `keep(callee)` is
true (the role anchors a rule wants to see as calls), recursive calls and std/foreign functions.  Nothing is executed: this
is a CFG transformation (copy blocks, rename locals, bind arguments by assignment, turn `return` into `goto`).

Every spliced block carries `"from": <instance id>` and `"site": <span of the call it was inlined at>` so reports can still
name the source function, and the original call is remembered in `body["inlined"]`.
"""
import copy
from .facts import Inst

MAX_DEPTH = 12
MAX_BLOCKS = 4000


def _remap(o, lo, bo=None):
    """deep copy of a statement / operand / place with locals shifted by `lo`"""
    if isinstance(o, dict):
        out = {}
        for k, v in o.items():
            if k == "l" and isinstance(v, int):
                out[k] = v + lo
            else:
                out[k] = _remap(v, lo)
        return out
    if isinstance(o, list):
        return [_remap(x, lo) for x in o]
    return o


def _remap_term(t, lo, bo, unwind_to):
    """copy of terminator `t` of a callee: locals + lo, blocks + bo; `unw: continue` is redirected to the caller's unwind target"""
    n = _remap(t, lo)
    k = n["k"]
    if "ret" in n and isinstance(n["ret"], int):
        n["ret"] = n["ret"] + bo
    if isinstance(n.get("unw"), int):
        n["unw"] = n["unw"] + bo
    elif n.get("unw") == "continue" and isinstance(unwind_to, int):
        n["unw"] = unwind_to
    elif n.get("unw") == "continue" and unwind_to in ("unreachable", "terminate"):
        n["unw"] = unwind_to
    if k == "switch":
        n["vals"] = [[v, b + bo] for v, b in t["vals"]]
        n["else"] = t["else"] + bo
    if k == "asm" and "targets" in n:
        n["targets"] = [b + bo for b in t["targets"]]
    return n


def _is_tuple_ty(ty):
    return ty.startswith("(") and ty.endswith(")")


def _tuple_elems(ty):
    inner = ty[1:-1].strip()
    if not inner:
        return []
    out = []; depth = 0; cur = ""
    for c in inner:
        if c in "(<[":
            depth += 1
        elif c in ")>]":
            depth -= 1
        if c == "," and depth == 0:
            out.append(cur.strip()); cur = ""
        else:
            cur += c
    if cur.strip():
        out.append(cur.strip())
    return out


class NInst(Inst):
    """an instance with a synthesised (inlined) body; `origin` is the instance it was built from"""
    __slots__ = ("origin", "inlined")


HOF_PREFIX = ("core::option::Option::", "core::result::Result::", "core::iter::", "<core::iter::", "core::ops::function::",
              "<core::slice::iter::", "core::slice::", "<alloc::collections::btree::map::", "<alloc::vec::", "<core::option::", "<core::ops::range::",
              "<core::array::", "core::array::", "<std::collections::hash::map::", "<&mut ", "<core::result::", "core::sync::atomic::Atomic::<", "core::ops::try_trait::", "<core::ops::try_trait::", "core::bool::", "core::task::poll::Poll::", "<core::task::poll::")
WS_CLOSURE_RE = __import__("re").compile(r"\{closure@<?signal_hook")
FN_ITEM_RE = __import__("re").compile(r"fn\(.*\)( -> [^{]*)? \{")
import re as _re
# std adapters whose only job is to forward a value between Result/Option shapes (`?` desugaring, identity conversions)
TRANSPARENT_RE = _re.compile(r"^<core::(result::Result|option::Option|ops::control_flow::ControlFlow)<.*> as core::ops::try_trait::(Try|FromResidual<.*>)>::(branch|from_residual|from_output)$"
                             r"|^<(.*) as core::convert::From<\2>>::from$|^<.* as core::convert::Into<.*>>::into$"
                             r"|^core::result::Result::<.*>::(ok|err)$|^core::option::Option::<.*>::(ok_or|copied|cloned)$")
# predicates on the shape of a Result/Option; opened up only by rules that ask for it (most rules recognise them as calls)
SHAPE_PRED_RE = _re.compile(r"^core::result::Result::<.*>::(is_ok|is_err)$|^core::option::Option::<.*>::(is_some|is_none)$")


def default_inlinable(F, callee, hof=False):
    if callee is not None and callee.body is not None and callee.kind == "fnptr_shim" and _re.search(r"\{signal_hook[\w]*::", callee.name):
        return True               # `f(x)` where the generic `f` was instantiated with a workspace function item: the shim just forwards
    if callee is None or callee.body is None or callee.kind not in ("item", "closure") or callee.crate == "vroots":
        return False
    if callee.local:
        return True
    if hof and TRANSPARENT_RE.match(callee.name):
        return True
    if hof and callee.name.startswith(("core::option::Option::", "core::result::Result::")) and FN_ITEM_RE.search(callee.name):
        return True               # `res.map(Some)`, `opt.map(Wrapper::new)`: a combinator instantiated with a function item
    if hof and WS_CLOSURE_RE.search(callee.name) and callee.name.startswith(HOF_PREFIX):
        # a std combinator instantiated with a workspace closure: `opt.map(|x| ..)`, `iter.for_each(|a| ..)`; its body is ordinary MIR
        return True
    return False


def norm(F, inst, keep=lambda c: False, depth=MAX_DEPTH, inlinable=None, drops=False, hof=False, _stack=()):
    """normal form of `inst` (see module doc). Cached per (inst, keep-id) by the caller if needed."""
    if inst.body is None:
        return inst
    inlinable = inlinable or (lambda c: default_inlinable(F, c, hof))
    body = inst.body
    locals_ = list(body["locals"])
    names = list(body.get("names") or [])
    blocks = [dict(bl) for bl in body["blocks"]]       # shallow: statements are shared, terminators replaced when spliced
    inlined = []
    stack = _stack + (inst.id,)
    nb0 = len(blocks)
    bi = 0
    while bi < nb0:
        bl = blocks[bi]
        t = bl["t"]
        callee = None
        if t["k"] == "call" and t.get("f") is not None:
            callee = F.inst[t["f"]]
        elif drops and t["k"] == "drop" and t.get("f") is not None:
            callee = F.inst[t["f"]]
        if callee is None:
            bi += 1; continue
        if callee.id in stack or depth <= 0 or not inlinable(callee) or keep(callee) or len(blocks) > MAX_BLOCKS:
            bi += 1; continue
        cn = norm(F, callee, keep, depth - 1, inlinable, drops, hof, stack)
        cb = cn.body
        lo = len(locals_); bo = len(blocks)
        locals_.extend(cb["locals"])
        names.extend([[x[0], _remap(x[1], lo)] for x in (cb.get("names") or []) if isinstance(x, list) and len(x) == 2 and isinstance(x[1], dict)])
        argc = cb["argc"]
        sp = t.get("sp", "")
        # ---- argument binding
        binds = []
        if t["k"] == "drop":
            # drop glue takes `*mut T`
            binds.append({"k": "assign", "l": {"l": 1 + lo, "p": []}, "r": {"k": "rawptr", "m": "mut", "p": t["p"]}, "sp": sp, "exp": False, "bind": True})
            ret_to = t.get("ret"); unw_to = t.get("unw"); dest = None
        else:
            args = t["args"]
            rustcall = t.get("def", "").startswith("core::ops::function::Fn") and callee.kind == "closure"
            if not rustcall and len(args) == argc:
                for i, a in enumerate(args):
                    binds.append({"k": "assign", "l": {"l": 1 + i + lo, "p": []}, "r": {"k": "use", "o": a}, "sp": sp, "exp": False, "bind": True})
            elif rustcall and len(args) == 2 and argc >= 1 and args[1]["k"] in ("move", "copy"):
                # rust-call ABI: (env, (a, b, ..)) -> env, a, b, ..
                binds.append({"k": "assign", "l": {"l": 1 + lo, "p": []}, "r": {"k": "use", "o": args[0]}, "sp": sp, "exp": False, "bind": True})
                tp = args[1]["p"]
                for i in range(argc - 1):
                    pl = {"l": tp["l"], "p": list(tp["p"]) + [{"k": "field", "i": i, "n": str(i), "t": cb["locals"][2 + i], "bt": "(tuple)"}]}
                    binds.append({"k": "assign", "l": {"l": 2 + i + lo, "p": []}, "r": {"k": "use", "o": {"k": args[1]["k"], "p": pl}}, "sp": sp, "exp": False, "bind": True})
            elif rustcall and len(args) == 2 and argc == 1 and args[1]["k"] == "const":
                binds.append({"k": "assign", "l": {"l": 1 + lo, "p": []}, "r": {"k": "use", "o": args[0]}, "sp": sp, "exp": False, "bind": True})
            else:
                bi += 1
                # cannot bind: leave the call alone (undo the local growth)
                del locals_[lo:]
                continue
            ret_to = t.get("ret"); unw_to = t.get("unw"); dest = t.get("dest")
        # ---- splice callee blocks
        for j, cbl in enumerate(cb["blocks"]):
            ct = cbl["t"]
            nbk = {"s": [_remap(s, lo) for s in cbl["s"]], "cleanup": cbl.get("cleanup", False),
                   "from": cbl.get("from", callee.id), "site": cbl.get("site", sp)}
            if ct["k"] == "return":
                if dest is not None:
                    nbk["s"].append({"k": "assign", "l": dest, "r": {"k": "use", "o": {"k": "move", "p": {"l": lo, "p": []}}}, "sp": sp, "exp": False, "bind": True})
                if ret_to is None:
                    nbk["t"] = {"k": "unreachable", "sp": ct.get("sp", ""), "exp": False}
                else:
                    nbk["t"] = {"k": "goto", "ret": ret_to, "sp": ct.get("sp", ""), "exp": False}
            elif ct["k"] == "resume":
                if isinstance(unw_to, int):
                    nbk["t"] = {"k": "goto", "ret": unw_to, "sp": ct.get("sp", ""), "exp": False}
                else:
                    nbk["t"] = dict(ct)
            else:
                nbk["t"] = _remap_term(ct, lo, bo, unw_to)
            blocks.append(nbk)
        # ---- the call block now binds arguments and jumps into the callee
        nbl = dict(bl)
        nbl["s"] = list(bl["s"]) + binds
        nbl["t"] = {"k": "goto", "ret": bo, "sp": sp, "exp": t.get("exp", False), "inl": callee.id}
        blocks[bi] = nbl
        inlined.append({"callee": callee.id, "name": callee.name, "site": sp, "bb": bi, "entry": bo, "n": len(cb["blocks"]), "lo": lo,
                        "sub": getattr(cn, "inlined", None) or []})
        bi += 1
    d = dict(inst.raw)
    d["body"] = {"argc": body["argc"], "locals": locals_, "names": names, "blocks": blocks}
    n = NInst(d)
    n.origin = inst
    n.inlined = inlined
    return n


def origin_of(F, ninst, bb):
    """the source instance a block of a normal form came from"""
    f = ninst.body["blocks"][bb].get("from")
    return F.inst[f] if f is not None else getattr(ninst, "origin", ninst)


def all_inlined(ninst):
    """flat list of every (transitively) inlined callee id"""
    out = []
    def rec(lst):
        for x in lst:
            out.append(x["callee"]); rec(x["sub"])
    rec(getattr(ninst, "inlined", []) or [])
    return out


KNOWN_VARIANTS = {"None": 0, "Some": 1, "Ok": 0, "Err": 1, "Continue": 0, "Break": 1, "false": 0, "true": 1}


def _const_discr(F, e):
    """the discriminant / integer value an expression is statically known to have, or None"""
    from .flow import deep_strip, fold
    e = deep_strip(e)
    if e[0] == "discr":
        b = deep_strip(e[1])
        for _ in range(4):
            # `Struct{a, b}.field` -> the element (a value parked in a struct literal keeps its identity)
            if b[0] == "field" and deep_strip(b[1])[0] == "agg" and deep_strip(b[1])[1][0] in ("adt", "tuple") and b[3] is not None and b[3] < len(deep_strip(b[1])[2]):
                b = deep_strip(deep_strip(b[1])[2][b[3]])
            else:
                break
        if b[0] == "agg" and b[1][0] == "adt" and len(b[1]) > 4 and b[1][4] is not None:
            return b[1][4]
        if b[0] == "const" and b[4] is None and len(b) > 6 and isinstance(b[6], str) and b[6].endswith("::None") and (b[3] or "").startswith("core::option::Option<"):
            return KNOWN_VARIANTS["None"]        # `Option::<usize>::None` printed without a variant field (non-scalar layout)
        if b[0] == "const" and b[4] is not None:
            v = b[4]
            if v in KNOWN_VARIANTS and (b[2] or b[3] or "").startswith(("core::option::Option", "core::result::Result", "core::ops::control_flow::ControlFlow")):
                return KNOWN_VARIANTS[v]
            try:
                a = F.adt(b[2])
                for i, var in enumerate(a["variants"]):
                    if var["name"] == v:
                        return var.get("discr", i)
            except Exception:
                return None
        return None
    if e[0] == "const" and isinstance(e[1], int) and e[4] is None:
        return e[1]
    if e[0] == "binop" and e[1] in ("Eq", "Ne") and (deep_strip(e[2])[0] == "discr" or deep_strip(e[3])[0] == "discr"):
        a, b = _const_discr(F, e[2]), _const_discr(F, e[3])        # `matches!(x, Variant(..))`: discriminant compared with a constant
        if a is None or b is None:
            return None
        return int((a == b) == (e[1] == "Eq"))
    v = fold(e)
    return v if isinstance(v, int) and e[0] in ("binop", "unop", "cast") else None


def simplify(F, n, rounds=6):
    """constant-branch folding on a normal form: a switch whose operand is statically one value (a mode argument bound to a constant at
    the inlined call site) becomes a goto; blocks that become unreachable are emptied (indices stay stable). No code is run."""
    from .flow import Flow
    body = n.body
    # locals whose storage can change behind the value analysis' back: anything mutably borrowed (the analysis follows assignments, not writes
    # through pointers). A branch that reads such a local — or reads through any pointer — is never folded.
    mutb = set()
    for bl in body["blocks"]:
        for st in bl["s"]:
            if st["k"] == "assign" and st["r"]["k"] in ("ref", "rawptr") and st["r"].get("m") not in ("shared", "Const", "const") \
                    and not any(p["k"] == "deref" for p in st["r"]["p"]["p"]):
                mutb.add(st["r"]["p"]["l"])

    def reads_memory(fl, local, at, depth=0, seen=None):
        """does the value of `local` at `at` depend on a read through a pointer or of a mutably borrowed local?"""
        seen = seen if seen is not None else set()
        if depth > 10 or local in mutb:
            return True

        def place_bad(pl, at2):
            projs = pl["p"]
            if projs and projs[0]["k"] == "deref" and not any(p["k"] == "deref" for p in projs[1:]):
                # `*r` where r is, on every path, a shared reference to a local of this body that is never mutably borrowed (`matches!(*self, ..)`
                # of an inlined `&self` method): the borrow checker rules out a write while r lives, so this reads that local's value
                tgts = []

                def refs_of(local2, at3, d2=0):
                    """False when some definition of the reference is not `&local` (possibly forwarded through plain moves)"""
                    if d2 > 6:
                        return False
                    sites = fl.reaching(local2, at3)
                    if not sites:
                        return False
                    for site in sites:
                        if site[0] == "entry":
                            return False
                        sb2, si2 = site
                        bl2 = body["blocks"][sb2]
                        st2 = bl2["s"][si2] if si2 < len(bl2["s"]) else None
                        if not (st2 and st2["k"] == "assign" and not st2["l"]["p"]):
                            return False
                        r2 = st2["r"]
                        if r2["k"] == "ref" and r2.get("m") == "shared" and not any(p["k"] == "deref" for p in r2["p"]["p"]):
                            tgts.append((r2["p"]["l"], (sb2, si2)))
                        elif r2["k"] == "use" and r2["o"]["k"] in ("copy", "move") and not r2["o"]["p"]["p"]:
                            if not refs_of(r2["o"]["p"]["l"], (sb2, si2), d2 + 1):
                                return False
                        else:
                            return False
                    return True
                if not refs_of(pl["l"], at2) or not tgts:
                    return True
                return any(reads_memory(fl, l2, a2, depth + 1, seen) for l2, a2 in tgts)
            if any(p["k"] == "deref" for p in projs):
                return True
            return reads_memory(fl, pl["l"], at2, depth + 1, seen)

        def op_bad(o, at2):
            return o.get("k") in ("copy", "move") and place_bad(o["p"], at2)
        for site in fl.reaching(local, at):
            if site[0] == "entry" or (local, site) in seen:
                continue
            seen.add((local, site))
            sb, si = site
            bl_ = body["blocks"][sb]
            if si >= len(bl_["s"]):
                continue              # defined by a call: an opaque value, never folded anyway
            st = bl_["s"][si]
            if st["k"] != "assign":
                return True
            r = st["r"]; k = r["k"]
            if k == "use" and op_bad(r["o"], (sb, si)):
                return True
            if k == "discr" and place_bad(r["p"], (sb, si)):
                return True
            if k in ("ref", "rawptr"):
                # an address: depends on the pointer it is computed from (if any), never on what the memory holds
                if any(p["k"] == "deref" for p in r["p"]["p"]) and reads_memory(fl, r["p"]["l"], (sb, si), depth + 1, seen):
                    return True
            if k == "cast" and op_bad(r["o"], (sb, si)):
                return True
            if k == "binop" and (op_bad(r["a"], (sb, si)) or op_bad(r["b"], (sb, si))):
                return True
            if k == "unop" and op_bad(r["a"], (sb, si)):
                return True
            if k == "aggregate" and any(op_bad(o, (sb, si)) for o in r["ops"]):
                return True
        return False
    for _ in range(rounds):
        fl = Flow(n)
        changed = False
        for b, bl in enumerate(body["blocks"]):
            t = bl["t"]
            if t["k"] != "switch" or bl.get("dead"):
                continue
            if fl._rd_in is None:
                fl._compute()
            if fl._rd_in[b] is None:
                continue
            d_ = t["d"]
            if d_.get("k") in ("copy", "move"):
                if any(p["k"] == "deref" for p in d_["p"]["p"]) or reads_memory(fl, d_["p"]["l"], (b, len(bl["s"]))):
                    continue
            ex = fl.term_operand(b, t["d"])
            vals = {_const_discr(F, e) for e in ex}
            if t.get("dty") == "bool":
                vals = {(v & 1) if isinstance(v, int) else v for v in vals}        # `!false` folds to -1 as an integer: it is `true`
            if len(vals) != 1 or None in vals:
                continue
            v = vals.pop()
            tgt = t["else"]
            for val, tg in t["vals"]:
                if val == v:
                    tgt = tg
            nb = dict(bl); nb["t"] = {"k": "goto", "ret": tgt, "sp": t.get("sp", ""), "exp": t.get("exp", False), "folded": v}
            body["blocks"][b] = nb
            changed = True
        # empty unreachable blocks
        seen = set(); st = [0]
        while st:
            x = st.pop()
            if x in seen:
                continue
            seen.add(x); st.extend(n.succ(x))
        for b, bl in enumerate(body["blocks"]):
            if b not in seen and not bl.get("dead"):
                body["blocks"][b] = {"s": [], "t": {"k": "unreachable", "sp": bl["t"].get("sp", ""), "exp": False}, "cleanup": bl.get("cleanup", False),
                                     "dead": True, "from": bl.get("from"), "site": bl.get("site")}
                changed = True
        if not changed:
            break
    return n


def _variant_of_def(F, n, site):
    """variant index assigned by the def site (bb, idx) if it is `L = Variant(..)` (aggregate or enum constant), else None"""
    bb, idx = site
    bl = n.body["blocks"][bb]
    if idx >= len(bl["s"]):
        return None
    s = bl["s"][idx]
    if s["k"] != "assign" or s["l"]["p"]:
        return None
    r = s["r"]
    if r["k"] == "aggregate" and r.get("ak") == "adt" and r.get("vi") is not None:
        return r["vi"]
    if r["k"] == "use" and r["o"]["k"] == "const":
        c = r["o"]["c"]
        if c.get("variant") is None and (c.get("repr") or "").endswith("::None") and (c.get("ty") or "").startswith("core::option::Option<"):
            return KNOWN_VARIANTS["None"]
        if c.get("variant") in KNOWN_VARIANTS and (c.get("def") or "").startswith(("core::option::Option", "core::result::Result", "core::ops::control_flow::ControlFlow")):
            return KNOWN_VARIANTS[c["variant"]]
        if c.get("variant") is None and isinstance(c.get("val"), int) and c.get("ty") in ("bool",):
            return c["val"]
    return None


def _variants_at(F, n, fl, local, at, depth=0):
    """set of variant indices `local` can hold at position `at`, following plain copies; contains None when unknown"""
    out = set()
    defs = fl.reaching(local, at)
    if not defs:
        return {None}
    for site in defs:
        if site[0] == "entry":
            out.add(None); continue
        v = _variant_of_def(F, n, site)
        if v is not None:
            out.add(v); continue
        bb, idx = site
        bl = n.body["blocks"][bb]
        if idx < len(bl["s"]) and depth < 6:
            s = bl["s"][idx]
            if s["k"] == "assign" and not s["l"]["p"] and s["r"]["k"] == "use" and s["r"]["o"]["k"] in ("copy", "move") and not s["r"]["o"]["p"]["p"]:
                out |= _variants_at(F, n, fl, s["r"]["o"]["p"]["l"], (bb, idx), depth + 1)
                continue
        out.add(None)
    return out


def _path_discr(n, preds, p, child, L, limit=12):
    """discriminant of enum local L known at the end of block p because every path into p took a value edge of an earlier switch on
    discriminant(L) and L was not written since (walks back through single-predecessor blocks)"""
    blocks = n.body["blocks"]
    cur = p
    for _ in range(limit):
        bl = blocks[cur]
        t = bl["t"]
        if t["k"] == "switch" and t["d"]["k"] in ("copy", "move") and not t["d"]["p"]["p"]:
            dl = t["d"]["p"]["l"]
            src = None
            for st in bl["s"]:
                if st["k"] == "assign" and not st["l"]["p"] and st["l"]["l"] == dl:
                    src = st["r"]["p"]["l"] if (st["r"]["k"] == "discr" and not st["r"]["p"]["p"]) else None
            if src == L:
                hits = [v for v, tg in t["vals"] if tg == child]
                if len(hits) == 1 and t["else"] != child:
                    return hits[0]
                return None
        for st in bl["s"]:
            if st["k"] in ("assign", "setdiscr") and st["l"]["l"] == L and not (st["k"] == "assign" and st["l"]["p"] and False):
                return None
        if t["k"] == "call" and t.get("dest") and t["dest"]["l"] == L:
            return None
        if t["k"] in ("call", "drop") and any(a.get("k") == "move" and a["p"]["l"] == L for a in t.get("args", [])):
            return None
        if len(preds[cur]) != 1:
            return None
        child = cur
        cur = preds[cur][0]
    return None


def thread_jumps(F, n, rounds=12):
    """jump threading: a switch on `discriminant(L)` (or on a bool local L) whose value is fixed by the predecessor the control came from
    (`L = Ok(..)` on one edge, `L = Err(..)` on the other, joined only to be taken apart again — the shape `?` and inlined helpers
    returning Result leave behind) is resolved per predecessor by duplicating the (statement-only) switch block. No code is run."""
    from .flow import Flow
    body = n.body
    blocks = body["blocks"]
    addr_taken = set()
    for bl in blocks:
        for s in bl["s"]:
            if s["k"] == "assign" and s["r"]["k"] in ("ref", "rawptr") and not any(p["k"] == "deref" for p in s["r"]["p"]["p"]) \
                    and s["r"].get("m") not in ("shared", "Const", "const"):
                addr_taken.add(s["r"]["p"]["l"])
    # drop flags: unnamed bool temporaries that are only ever assigned the constants true / false
    named = {x[1]["l"] for x in (body.get("names") or []) if isinstance(x, list) and len(x) == 2 and isinstance(x[1], dict)}
    assigned = {}
    for bl in blocks:
        for s in bl["s"]:
            if s["k"] == "assign" and not s["l"]["p"]:
                r = s["r"]
                isc = r["k"] == "use" and r["o"]["k"] == "const" and r["o"]["c"].get("ty") == "bool"
                assigned.setdefault(s["l"]["l"], []).append(isc)
        t = bl["t"]
        if t["k"] == "call" and t.get("dest") and not t["dest"]["p"]:
            assigned.setdefault(t["dest"]["l"], []).append(False)
    drop_flags = {l for l, v in assigned.items() if all(v) and body["locals"][l] == "bool" and l not in named and l > body["argc"]}
    for _ in range(rounds):
        fl = Flow(n)
        fl._compute()
        preds = n.preds(False)
        changed = False
        for b in range(len(blocks)):
            bl = blocks[b]
            t = bl["t"]
            if t["k"] != "switch" or bl.get("dead") or fl._rd_in[b] is None:
                continue
            d = t["d"]
            if d["k"] not in ("copy", "move") or d["p"]["p"]:
                continue
            # the chain of statement-only blocks that leads into the switch: [head, .., b]; head is where paths join
            chain = [b]
            while len(preds[chain[0]]) == 1 and len(chain) < 8:
                q = preds[chain[0]][0]
                if q in chain or blocks[q]["t"]["k"] not in ("goto", "drop") or blocks[q].get("dead"):
                    break
                if blocks[q]["t"]["k"] == "drop" and blocks[q]["t"].get("ret") != chain[0]:
                    break
                chain.insert(0, q)
            head = chain[0]
            if len(preds[head]) < 2:
                continue
            # walk the chain backwards: which local, defined before the chain, decides the switch?
            target = d["p"]["l"]; ok = True; via_discr = False
            for cb in reversed(chain):
                for st in reversed(blocks[cb]["s"]):
                    if st["k"] == "setdiscr" and st["l"]["l"] == target:
                        ok = False
                    if st["k"] != "assign" or st["l"]["l"] != target:
                        continue
                    if st["l"]["p"]:
                        ok = False; continue
                    r = st["r"]
                    if r["k"] == "discr" and not r["p"]["p"]:
                        target = r["p"]["l"]; via_discr = True
                    elif r["k"] == "use" and r["o"]["k"] in ("copy", "move") and not r["o"]["p"]["p"]:
                        target = r["o"]["p"]["l"]
                    else:
                        ok = False
            if not via_discr and bl.get("cleanup"):
                continue      # drop flags on unwind paths stay as they are (predecessors over unwind edges are not tracked here)
            if not ok or target in addr_taken or not (via_discr or target in drop_flags):
                continue      # enum discriminants and compiler-made drop flags are threaded (user-level bool flags keep their join: rules
                              # reason about them as values)
            for p in list(preds[head]):
                if blocks[p].get("dead") or fl._rd_in[p] is None or p in chain:
                    continue
                vs = _variants_at(F, n, fl, target, (p, len(blocks[p]["s"]) + 1))
                if len(vs) != 1 or None in vs:
                    pv = _path_discr(n, preds, p, head, target)
                    if pv is None:
                        continue
                    vs = {pv}
                v = vs.pop()
                tgt = t["else"]
                for val, tg in t["vals"]:
                    if val == v:
                        tgt = tg
                first = len(blocks)
                for ci, cb in enumerate(chain):
                    src = blocks[cb]
                    last = ci == len(chain) - 1
                    if not last and src["t"]["k"] == "drop":
                        nt = dict(src["t"]); nt["ret"] = first + ci + 1          # a drop on the way is duplicated with its block
                    else:
                        nt = {"k": "goto", "ret": tgt if last else first + ci + 1, "sp": src["t"].get("sp", ""), "exp": src["t"].get("exp", False)}
                    if last:
                        nt["threaded"] = v
                    blocks.append({"s": list(src["s"]), "t": nt, "cleanup": src.get("cleanup", False), "from": src.get("from"), "site": src.get("site")})
                pt = dict(blocks[p]["t"])
                if pt.get("ret") == head:
                    pt["ret"] = first
                if pt["k"] == "switch":
                    pt["vals"] = [[val, (first if tg == head else tg)] for val, tg in pt["vals"]]
                    if pt["else"] == head:
                        pt["else"] = first
                np_ = dict(blocks[p]); np_["t"] = pt
                blocks[p] = np_
                changed = True
        # (reaching definitions computed before this round are a superset of the true ones after redirecting edges: still sound)
        if not changed:
            break
    return n


def cached(F, inst, keep=None, tag="", fold_consts=True, thread=False, **kw):
    """normal form cached on the Facts object (keeps the synthetic instances alive: flow caches are keyed by object identity)"""
    c = F.__dict__.setdefault("_norm_cache", {})
    k = (inst.id, tag)
    if k not in c:
        n = norm(F, inst, keep or (lambda x: False), **kw)
        if fold_consts and isinstance(n, NInst):
            simplify(F, n)
            if thread:
                for _ in range(4):
                    nb = len(n.body["blocks"])
                    thread_jumps(F, n)
                    simplify(F, n)
                    if len(n.body["blocks"]) == nb:
                        break
        c[k] = n
    return c[k]


def assuming(F, n, cut):
    """the normal form `n` under the assumption that the switch edges `cut` = {(block, target)} are never taken: those edges are removed, then
    constants are folded and joins threaded again, so that everything that could only happen through them is dead. Used for polarity
    questions ("is X reachable when the comparison never holds?") that plain reachability cannot answer across Option/Result joins."""
    c = F.__dict__.setdefault("_norm_cache", {})
    k = ("assume", id(n), frozenset(cut))
    if k in c:
        return c[k]
    body = n.body
    blocks = [dict(bl) for bl in body["blocks"]]
    for b, bl in enumerate(blocks):
        t = bl["t"]
        if t["k"] != "switch":
            continue
        rm = {tg for (bb, tg) in cut if bb == b}
        if not rm:
            continue
        vals = [[v, tg] for v, tg in t["vals"] if tg not in rm]
        els = t["else"]
        if els in rm:
            if not vals:
                bl["t"] = {"k": "unreachable", "sp": t.get("sp", ""), "exp": False}
                continue
            els = vals[-1][1]; vals = vals[:-1]
        if not vals or all(tg == els for _, tg in vals):
            bl["t"] = {"k": "goto", "ret": els, "sp": t.get("sp", ""), "exp": t.get("exp", False), "assumed": True}
        else:
            nt = dict(t); nt["vals"] = vals; nt["else"] = els
            bl["t"] = nt
    d = dict(n.raw)
    d["body"] = {"argc": body["argc"], "locals": list(body["locals"]), "names": list(body.get("names") or []), "blocks": blocks}
    n2 = NInst(d)
    n2.origin = getattr(n, "origin", n)
    n2.inlined = getattr(n, "inlined", [])
    simplify(F, n2)
    for _ in range(4):
        nb = len(n2.body["blocks"])
        thread_jumps(F, n2)
        simplify(F, n2)
        if len(n2.body["blocks"]) == nb:
            break
    c[k] = n2
    return n2
