"""E8: MIR-level inlining of workspace-local helpers (normal form for rules that reason about one function's paths).

`norm(F, inst, keep)` returns an Inst-like object whose body is `inst`'s MIR with every resolved call to a
workspace-local function that has MIR spliced in (recursively, bounded), except callees for which `keep(callee)` is
true (the role anchors a rule wants to see as calls), recursive calls and std/foreign functions.  Nothing is executed: this
is a CFG transformation (copy blocks, rename locals, bind arguments by assignment, turn `return` into `goto`).

Every spliced block carries `"from": <instance id>` and `"site": <span of the call it was inlined at>` so reports can still
name the source function, and the original call is remembered in `body["inlined"]`.
"""
import copy
from .facts import Inst

MAX_DEPTH = 8
MAX_BLOCKS = 4000


def _remap(o, lo, bo=None):
    """deep copy of a statement / operand / place with locals shifted by `lo`"""
    if isinstance(o, dict):
        out = {}
        for k, v in o.items():
            if k == "l" and isinstance(v, int):
                out[k] = v + lo
            else:
                out[k] = _remap(v, lo)
        return out
    if isinstance(o, list):
        return [_remap(x, lo) for x in o]
    return o


def _remap_term(t, lo, bo, unwind_to):
    """copy of terminator `t` of a callee: locals + lo, blocks + bo; `unw: continue` is redirected to the caller's unwind target"""
    n = _remap(t, lo)
    k = n["k"]
    if "ret" in n and isinstance(n["ret"], int):
        n["ret"] = n["ret"] + bo
    if isinstance(n.get("unw"), int):
        n["unw"] = n["unw"] + bo
    elif n.get("unw") == "continue" and isinstance(unwind_to, int):
        n["unw"] = unwind_to
    elif n.get("unw") == "continue" and unwind_to in ("unreachable", "terminate"):
        n["unw"] = unwind_to
    if k == "switch":
        n["vals"] = [[v, b + bo] for v, b in t["vals"]]
        n["else"] = t["else"] + bo
    if k == "asm" and "targets" in n:
        n["targets"] = [b + bo for b in t["targets"]]
    return n


def _is_tuple_ty(ty):
    return ty.startswith("(") and ty.endswith(")")


def _tuple_elems(ty):
    inner = ty[1:-1].strip()
    if not inner:
        return []
    out = []; depth = 0; cur = ""
    for c in inner:
        if c in "(<[":
            depth += 1
        elif c in ")>]":
            depth -= 1
        if c == "," and depth == 0:
            out.append(cur.strip()); cur = ""
        else:
            cur += c
    if cur.strip():
        out.append(cur.strip())
    return out


class NInst(Inst):
    """an instance with a synthesised (inlined) body; `origin` is the instance it was built from"""
    __slots__ = ("origin", "inlined")


def default_inlinable(F, callee):
    return (callee is not None and callee.body is not None and callee.local and callee.kind in ("item", "closure")
            and callee.crate != "vroots")


def norm(F, inst, keep=lambda c: False, depth=MAX_DEPTH, inlinable=None, drops=False, _stack=()):
    """normal form of `inst` (see module doc). Cached per (inst, keep-id) by the caller if needed."""
    if inst.body is None:
        return inst
    inlinable = inlinable or (lambda c: default_inlinable(F, c))
    body = inst.body
    locals_ = list(body["locals"])
    names = list(body.get("names") or [])
    blocks = [dict(bl) for bl in body["blocks"]]       # shallow: statements are shared, terminators replaced when spliced
    inlined = []
    stack = _stack + (inst.id,)
    nb0 = len(blocks)
    bi = 0
    while bi < nb0:
        bl = blocks[bi]
        t = bl["t"]
        callee = None
        if t["k"] == "call" and t.get("f") is not None:
            callee = F.inst[t["f"]]
        elif drops and t["k"] == "drop" and t.get("f") is not None:
            callee = F.inst[t["f"]]
        if callee is None:
            bi += 1; continue
        if callee.id in stack or depth <= 0 or not inlinable(callee) or keep(callee) or len(blocks) > MAX_BLOCKS:
            bi += 1; continue
        cn = norm(F, callee, keep, depth - 1, inlinable, drops, stack)
        cb = cn.body
        lo = len(locals_); bo = len(blocks)
        locals_.extend(cb["locals"])
        cnames = cb.get("names") or []
        names.extend(cnames if len(cnames) == len(cb["locals"]) else [None] * len(cb["locals"]))
        argc = cb["argc"]
        sp = t.get("sp", "")
        # ---- argument binding
        binds = []
        if t["k"] == "drop":
            # drop glue takes `*mut T`
            binds.append({"k": "assign", "l": {"l": 1 + lo, "p": []}, "r": {"k": "rawptr", "m": "mut", "p": t["p"]}, "sp": sp, "exp": False, "bind": True})
            ret_to = t.get("ret"); unw_to = t.get("unw"); dest = None
        else:
            args = t["args"]
            rustcall = t.get("def", "").startswith("core::ops::function::Fn") and callee.kind == "closure"
            if not rustcall and len(args) == argc:
                for i, a in enumerate(args):
                    binds.append({"k": "assign", "l": {"l": 1 + i + lo, "p": []}, "r": {"k": "use", "o": a}, "sp": sp, "exp": False, "bind": True})
            elif rustcall and len(args) == 2 and argc >= 1 and args[1]["k"] in ("move", "copy"):
                # rust-call ABI: (env, (a, b, ..)) -> env, a, b, ..
                binds.append({"k": "assign", "l": {"l": 1 + lo, "p": []}, "r": {"k": "use", "o": args[0]}, "sp": sp, "exp": False, "bind": True})
                tp = args[1]["p"]
                for i in range(argc - 1):
                    pl = {"l": tp["l"], "p": list(tp["p"]) + [{"k": "field", "i": i, "n": str(i), "t": cb["locals"][2 + i], "bt": "(tuple)"}]}
                    binds.append({"k": "assign", "l": {"l": 2 + i + lo, "p": []}, "r": {"k": "use", "o": {"k": args[1]["k"], "p": pl}}, "sp": sp, "exp": False, "bind": True})
            elif rustcall and len(args) == 2 and argc == 1 and args[1]["k"] == "const":
                binds.append({"k": "assign", "l": {"l": 1 + lo, "p": []}, "r": {"k": "use", "o": args[0]}, "sp": sp, "exp": False, "bind": True})
            else:
                bi += 1
                # cannot bind: leave the call alone (undo the local growth)
                del locals_[lo:]; del names[lo:]
                continue
            ret_to = t.get("ret"); unw_to = t.get("unw"); dest = t.get("dest")
        # ---- splice callee blocks
        for j, cbl in enumerate(cb["blocks"]):
            ct = cbl["t"]
            nbk = {"s": [_remap(s, lo) for s in cbl["s"]], "cleanup": cbl.get("cleanup", False),
                   "from": cbl.get("from", callee.id), "site": cbl.get("site", sp)}
            if ct["k"] == "return":
                if dest is not None:
                    nbk["s"].append({"k": "assign", "l": dest, "r": {"k": "use", "o": {"k": "move", "p": {"l": lo, "p": []}}}, "sp": sp, "exp": False, "bind": True})
                if ret_to is None:
                    nbk["t"] = {"k": "unreachable", "sp": ct.get("sp", ""), "exp": False}
                else:
                    nbk["t"] = {"k": "goto", "ret": ret_to, "sp": ct.get("sp", ""), "exp": False}
            elif ct["k"] == "resume":
                if isinstance(unw_to, int):
                    nbk["t"] = {"k": "goto", "ret": unw_to, "sp": ct.get("sp", ""), "exp": False}
                else:
                    nbk["t"] = dict(ct)
            else:
                nbk["t"] = _remap_term(ct, lo, bo, unw_to)
            blocks.append(nbk)
        # ---- the call block now binds arguments and jumps into the callee
        nbl = dict(bl)
        nbl["s"] = list(bl["s"]) + binds
        nbl["t"] = {"k": "goto", "ret": bo, "sp": sp, "exp": t.get("exp", False), "inl": callee.id}
        blocks[bi] = nbl
        inlined.append({"callee": callee.id, "name": callee.name, "site": sp, "bb": bi, "entry": bo, "n": len(cb["blocks"]), "lo": lo,
                        "sub": getattr(cn, "inlined", None) or []})
        bi += 1
    d = dict(inst.raw)
    d["body"] = {"argc": body["argc"], "locals": locals_, "names": names, "blocks": blocks}
    n = NInst(d)
    n.origin = inst
    n.inlined = inlined
    return n


def origin_of(F, ninst, bb):
    """the source instance a block of a normal form came from"""
    f = ninst.body["blocks"][bb].get("from")
    return F.inst[f] if f is not None else getattr(ninst, "origin", ninst)


def all_inlined(ninst):
    """flat list of every (transitively) inlined callee id"""
    out = []
    def rec(lst):
        for x in lst:
            out.append(x["callee"]); rec(x["sub"])
    rec(getattr(ninst, "inlined", []) or [])
    return out


def cached(F, inst, keep=None, tag="", **kw):
    """normal form cached on the Facts object (keeps the synthetic instances alive: flow caches are keyed by object identity)"""
    c = F.__dict__.setdefault("_norm_cache", {})
    k = (inst.id, tag)
    if k not in c:
        c[k] = norm(F, inst, keep or (lambda x: False), **kw)
    return c[k]
