"""E1: effect reachability over the monomorphic call graph with classified leaves."""
import os
from .facts import strip_generics

VERIF = os.path.dirname(os.path.dirname(os.path.abspath(__file__)))


def _tsv(name):
    rows = []
    for line in open(os.path.join(VERIF, "oracle", name)):
        line = line.rstrip("\n")
        if not line or line.startswith("#"):
            continue
        rows.append(line.split("\t"))
    return rows


_LEAF = None
_SAFE = None
_PANIC_API = None


def tables():
    global _LEAF, _SAFE, _PANIC_API
    if _LEAF is None:
        _LEAF = [(norm(r[0]), r[1]) for r in _tsv("std_leaf_classes.tsv")]
        _LEAF.sort(key=lambda x: -len(x[0]))
        _SAFE = {r[0]: (r[1], r[2] if len(r) > 2 else "") for r in _tsv("signal_safety.tsv")}
        _PANIC_API = [norm(r[0]) for r in _tsv("panicking_std_api.tsv")]
    return _LEAF, _SAFE, _PANIC_API


PANIC_ENTRIES = ("std::panicking::begin_panic", "std::rt::begin_panic", "core::panicking::panic", "core::panicking::assert_failed",
                 "core::option::unwrap_failed", "core::option::expect_failed", "core::result::unwrap_failed",
                 "std::panicking::rust_panic_with_hook", "std::panicking::panic_with_hook")


def is_panic_entry(inst):
    """functions that start a panic; treated as PANIC leaves even when the sysroot ships their (generic) MIR"""
    d = inst.defp
    return any(d.startswith(p) for p in PANIC_ENTRIES) and not d.startswith("core::panicking::panic_nounwind") \
        and not d.startswith("core::panicking::panic_cannot_unwind")


def is_leaf(inst):
    return (inst.body is None and inst.kind != "virtual") or is_panic_entry(inst)


def norm(p):
    """std re-exports: rustc prints `std::option::Option` for `core::option::Option`"""
    for pre in ("core::", "alloc::"):
        if p.startswith(pre):
            return "std::" + p[len(pre):]
    return p


def classify(inst):
    """class of a leaf instance: (CLASS, note)"""
    leaf, safe, _ = tables()
    if is_panic_entry(inst):
        return "PANIC", "panic entry point"
    if inst.kind == "intrinsic":
        if inst.defp.endswith("::abort"):
            return "TERM", "abort intrinsic"
        return "INTRINSIC", ""
    path = norm(strip_generics(inst.name))
    defp = norm(inst.defp)
    if inst.kind == "foreign":
        sym = inst.symbol or ""
        for p, c in leaf:
            if defp.startswith(p) or path.startswith(p):
                return c, "std leaf table"
        if sym.startswith("sighook_signal_"):
            return "WS_C", "C helper of this workspace (src/low_level/extract.c; shape checked under C17)"
        if sym in safe:
            cls, note = safe[sym]
            return {"nb": "SAFE_FFI", "term": "TERM", "block": "SAFE_FFI_BLOCK"}[cls], note
        return "UNCLASSIFIED", "foreign function `%s` is not in signal-safety(7)" % sym
    for p, c in leaf:
        if defp.startswith(p) or path.startswith(p):
            return c, "std leaf table"
    if inst.local and inst.defp in _CTORS:
        return "SAFE", "constructor of a workspace tuple struct / enum variant used as a function (builds a value, no effect)"
    return "UNCLASSIFIED", "no MIR and no class for `%s`" % path


_CTORS = set()


def register_ctors(F):
    """definition paths of workspace ADT constructors (`Word` for `struct Word(u16)`, `Kind::Variant` for tuple variants)"""
    if getattr(F, "_ctors_done", False):
        return
    for c, a in F.crate_items("adts"):
        if len(a["variants"]) == 1:
            _CTORS.add(a["path"])
        for v in a["variants"]:
            _CTORS.add(a["path"] + "::" + v["name"])
    F._ctors_done = True


def is_panicking_api(inst):
    _, _, api = tables()
    p = norm(strip_generics(inst.name))
    d = norm(strip_generics(inst.defp))
    for a in api:
        if a.endswith("::"):
            if d.startswith(a) or p.startswith(a):
                return True
        elif d == a or p == a:
            return True
    return False


class Cone:
    """everything reachable from a set of roots; leaves classified; parent pointers for witnesses"""

    def __init__(self, F, roots, stop=None):
        register_ctors(F)
        self.F = F
        self.roots = roots
        st = stop or (lambda i: False)
        self.parent = F.reach(roots, stop=lambda i: is_panic_entry(i) or st(i))
        self.members = [F.inst[i] for i in self.parent]
        self.leaves = {}
        self.indirect = []
        for i in self.members:
            if is_leaf(i):
                self.leaves[i.id] = classify(i)
            elif i.kind == "virtual" and not i.impls:
                self.leaves[i.id] = ("UNCLASSIFIED", "virtual call on `%s` with no known implementor" % i.dyn)
            if i.body is not None:
                for b, t in i.calls():
                    if t.get("indirect"):
                        self.indirect.append((i, b, t))

    def of_class(self, *classes):
        return [(self.F.inst[i], c, n) for i, (c, n) in self.leaves.items() if c in classes]

    def chain_text(self, target_id):
        ch = self.F.chain(self.parent, target_id)
        return ["%s%s" % (i.name, ("  [%s @ %s]" % (k, sp)) if k else "") for (i, k, sp) in ch]

    def local_frame_above(self, target_id):
        """nearest workspace-local frame on the witness chain above target, and the callee it used"""
        cur = target_id; below = target_id
        while True:
            p = self.parent.get(cur)
            if p is None:
                return None, None
            pi = self.F.inst[p[0]]
            if pi.local:
                return pi, (self.F.inst[cur], p[2])
            cur = p[0]
