"""Shared anchors: entities located by type / dataflow role (never by line or text)."""
import re
from .facts import AnchorLost
from .effects import Cone

ACTION_DYN_RE = re.compile(r"^dyn for<'a> core::ops::function::Fn\(&'a libc::[\w:]*siginfo_t\) \+ core::marker::Send \+ core::marker::Sync$")


def handler(F):
    """the function whose address flows into libc::sigaction: reified extern "C" fn(i32, *mut siginfo_t, *mut c_void)"""
    cands = set()
    for i in F.inst:
        if i.body is None or not i.local:
            continue
        for b, k, bb in [(t, k, bb) for (t, k, bb) in F.edges(i) if k == "reify"]:
            ti = F.inst[b]
            if ti.local and ti.crate == "signal_hook_registry" and ti.body is not None and ti.body["argc"] == 3:
                cands.add(ti.id)
    if len(cands) != 1:
        raise AnchorLost("signal dispatcher: expected exactly one address-taken 3-argument function in the registry, found %s"
                         % [F.inst[c].name for c in cands])
    return F.inst[cands.pop()]


def action_dyn(F):
    tys = sorted({u["to"] for u in F.unsize if ACTION_DYN_RE.match(u["to"])})
    if len(tys) != 1:
        raise AnchorLost("registry action type `dyn Fn(&siginfo_t)+Send+Sync`: found %s" % tys)
    return tys[0]


def action_closures(F):
    """closure types coerced to the registry's action type anywhere in the monomorphic program"""
    d = action_dyn(F)
    seen = {}
    for u in F.unsize:
        if u["to"] == d:
            seen[u["from"]] = u
    return seen


def action_instances(F):
    """Fn::call instances of every action closure (targets of the dispatcher's virtual call)"""
    d = action_dyn(F)
    out = []
    for i in F.inst:
        if i.kind == "virtual" and i.dyn == d:
            for tid, via in i.impls or []:
                out.append((F.inst[tid], via))
    return out


_cone = {}


def dispatch_cone(F):
    k = id(F)
    if k not in _cone:
        h = handler(F)
        roots = [h] + [a for a, _ in action_instances(F)]
        _cone[k] = Cone(F, roots)
    return _cone[k]


def is_user_code(inst):
    """instances that belong to the roots harness (stand-ins for user closures)"""
    return inst.crate == "vroots" or "{closure@src/lib.rs" in inst.name


def halflocks(F):
    """monomorphic instantiations of the RCU-style lock, by type: T of HalfLock<T>"""
    ts = set()
    for i in F.inst:
        m = re.match(r"^signal_hook_registry::half_lock::HalfLock::<(.*)>::\w+$", i.name)
        if m:
            ts.add(m.group(1))
    if len(ts) < 2:
        raise AnchorLost("expected >= 2 instantiations of the half lock (data, fallback), found %s" % sorted(ts))
    return sorted(ts)


def action_site(F):
    """where the dispatcher calls the actions: the workspace function A containing the virtual call on the action type, the block of
    that call, and the chain of (frame, call block) leading from the dispatcher to A (empty when A is the dispatcher itself).
    Extracting the loop into a helper must not change any verdict, so rules go through this anchor."""
    h = handler(F)
    d = action_dyn(F)

    def sites(m):
        return [(bb, t) for bb, t in m.calls() if t.get("f") is not None and F.inst[t["f"]].kind == "virtual" and F.inst[t["f"]].dyn == d]
    found = []
    seen = {h.id}
    frontier = [(h, [])]
    depth = 0
    while frontier and depth <= 3:
        nxt = []
        for m, chain in frontier:
            for bb, t in sites(m):
                found.append((m, bb, t, chain))
            for bb, t in m.calls():
                if t.get("f") is None:
                    continue
                c = F.inst[t["f"]]
                if c.local and c.body is not None and c.kind != "virtual" and c.id not in seen and c.crate == h.crate:
                    seen.add(c.id)
                    nxt.append((c, chain + [(m, bb)]))
        frontier = nxt; depth += 1
    return h, found
