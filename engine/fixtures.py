"""Fixtures: every zero-count / classification rule must hit its deliberately bad example in the roots harness on every run."""
from . import cfg
from .effects import Cone
from .atomics import sites, at_least
from .rules.util import escapes
from .facts import AnchorLost


def run(ctx, want):
    """want: subset of {'effects', 'escapes', 'orderings', 'loops'}"""
    F = ctx.F
    rid = ctx.prop + ".FX"
    ctx.rule(rid, "self-test on every run: the zero-count / classification machinery used by this property hits the deliberately wrong fixtures "
                  "of the roots harness (a rule that cannot see its fixture has gone blind)", floor=len(want))
    if "effects" in want:
        fx = F.one("vroots::roots_fixture_effects")
        cone = Cone(F, [fx])
        got = {c for (_, c, _) in [(i, c, n) for i, c, n in cone.of_class("LOCK", "ALLOC", "FREE", "WAIT", "ALLOCFREE_UNKNOWN", "UNCLASSIFIED", "PANIC", "SYSCALL")]}
        need = {"LOCK", "ALLOC", "FREE", "WAIT"}
        ctx.check(need <= got, rid, "fixture:effects", "effect classification sees LOCK, ALLOC, FREE and WAIT leaves below the bad fixture handler (%d instances walked)" % len(cone.members),
                  fx.span, {"found": sorted(got), "needed": sorted(need)})
    if "escapes" in want:
        esc = escapes(F, lambda a: "vroots::FixtureToken" in a)
        kinds = {("forget" if "forget" in e.name else "ptr::read" if "ptr::read" in e.name else "ManuallyDrop" if "ManuallyDrop" in e.name else "Clone" if "Clone" in e.name else "?") for e in esc}
        ctx.check({"forget", "ptr::read", "ManuallyDrop", "Clone"} <= kinds, rid, "fixture:escapes", "the escape inventory finds forget / ptr::read / ManuallyDrop::new / Clone on the fixture token",
                  None, sorted(kinds))
    if "orderings" in want:
        fx = F.one("vroots::roots_fixture_orderings")
        ss = sites(F, fx)
        weak = [s for s in ss if s.op == "fetch_add" and not at_least(s.orders[0], "SeqCst", "rmw")]
        plain = [s for s in ss if s.op == "store" and s.aty == "u16"]
        ok_acq = [s for s in ss if s.op == "load" and at_least(s.orders[0], "Acquire", "load") and not at_least(s.orders[0], "SeqCst", "load")]
        ctx.check(len(weak) == 1 and len(plain) == 1 and len(ok_acq) == 1, rid, "fixture:orderings", "the ordering inventory flags the Relaxed RMW and the plain store on a u16 word and "
                  "grades Acquire correctly", fx.span, [repr(s) for s in ss])
    if "loops" in want:
        fx = F.one("vroots::roots_fixture_wait_loop")
        from .rules.C03 import _loop_kind
        cy = cfg.cycles(fx)
        kinds = [_loop_kind(F, fx, c) for c in cy]
        ctx.check(len(cy) == 1 and kinds == [None], rid, "fixture:wait-loop", "the loop classifier refuses the spin-wait fixture (neither iterator-driven nor CAS-retry)", fx.span, str(kinds))
