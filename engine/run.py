"""entry: python3 -m engine.run <Cxx> [--tier quick|thorough] [--repo PATH]"""
import argparse, importlib, json, os, sys, time

from . import extract
from .core import Ctx, load_known, VERIF
from .facts import Facts

PROPS = ["C01", "C02", "C03", "C04", "C05", "C07", "C08", "C09", "C10", "C11", "C12", "C13", "C14", "C15", "C16", "C17", "C18"]


WITNESS_PROPS = {"C01": ["W4"], "C02": ["W5"], "C03": ["W3", "W4"], "C05": ["W2"], "C07": ["W1"], "C10": ["W6"], "C12": ["W6"]}
SELFTEST = {}


def thorough_extras(ctx, prop, repo):
    """thorough tier = quick rules + compile-fail witnesses + checker self-test (mutants, seeded changes, benign refactors) for this property.
    The self-test exercises the checker on scratch copies; it never decides the verdict on the repository."""
    import concurrent.futures, re as _re
    sys.path.insert(0, os.path.join(VERIF, "tools"))
    if prop in WITNESS_PROPS:
        from . import witness
        ok, d = witness.run(repo)
        rid = prop + ".W"
        ctx.rule(rid, "compile_fail witnesses (with compiling twins) for the type-level facts this property's rules rely on", floor=len(WITNESS_PROPS[prop]))
        for w in WITNESS_PROPS[prop]:
            tests = [t for t in d.get("tests", []) if " %s " % w in t]
            good = len(tests) == 2 and not any(w in f for f in d.get("failed", []))
            ctx.check(good and ok, rid, "witness:%s" % w, "witness %s: the offending program fails to compile with the expected error, its twin compiles" % w, None, d.get("log") or d.get("failed"))
    if os.path.abspath(repo) != "/repo" or os.environ.get("VERIF_NO_SELFTEST"):
        return
    import selftest, mutate, benigntest
    specs = [m for m in selftest.load_specs() if prop in m["expect"]]
    seeds = []
    sd = os.path.join(VERIF, "seeded")
    for d in sorted(os.listdir(sd)) if os.path.isdir(sd) else []:
        mp = os.path.join(sd, d, "meta.json")
        if os.path.exists(mp):
            m = json.load(open(mp))
            if m.get("breaks_property") == prop:
                seeds.append((d, os.path.join(sd, d, "patch.diff")))
    benign = benigntest.load() + benigntest.load_ext()
    out = {"mutants": [], "seeds": [], "benign": []}

    def mut(m):
        r = selftest.run_one(m, {prop}, repo)
        return ("mut", m["name"], r)

    def seed(x):
        d, patch = x
        res, err = mutate.run(patch, [prop], repo=repo)
        fired = [] if res is None else sorted(set(_re.findall(r"^\s+\[(C\d\d[.\w]*)\]", res[prop][1], _re.M)))
        return ("seed", d, {"rc": None if res is None else res[prop][0], "fired": fired})

    def ben(b):
        patch = os.path.join(VERIF, "mutants", "benign_ext" if b.get("ext") else "benign", b["name"] + ".patch")
        res, err = mutate.run(patch, [prop], repo=repo)
        return ("ben", b["name"], {"rc": None if res is None else res[prop][0],
                                   "fired": [] if res is None else sorted(set(_re.findall(r"^\s+\[(C\d\d[.\w]*)\] (\S+)", res[prop][1], _re.M)))})
    jobs = [(mut, m) for m in specs] + [(seed, s) for s in seeds] + [(ben, b) for b in benign]
    with concurrent.futures.ThreadPoolExecutor(max_workers=12) as ex:
        for kind, name, r in ex.map(lambda j: j[0](j[1]), jobs):
            if kind == "mut":
                out["mutants"].append({"name": name, "status": (r or {}).get("status"), "fired": (r or {}).get("results", {}).get(prop, {}).get("fired")})
            elif kind == "seed":
                out["seeds"].append({"name": name, "detected": r["rc"] == 1, "fired": r["fired"]})
            else:
                out["benign"].append({"name": name, "silent": r["rc"] == 0, "fired": r["fired"]})
    SELFTEST[prop] = {
        "mutants_total": len(out["mutants"]), "mutants_killed": sum(1 for m in out["mutants"] if m["status"] == "killed"),
        "mutants_not_killed": [m for m in out["mutants"] if m["status"] != "killed"],
        "seeded_total": len(out["seeds"]), "seeded_detected": sum(1 for m in out["seeds"] if m["detected"]),
        "seeded_missed": [m["name"] for m in out["seeds"] if not m["detected"]],
        "benign_total": len(out["benign"]), "benign_silent": sum(1 for m in out["benign"] if m["silent"]),
        "benign_alarms": [m for m in out["benign"] if not m["silent"]],
        "mutants": out["mutants"], "seeds": out["seeds"],
    }
    st = SELFTEST[prop]
    print("SELFTEST %s: mutants %d/%d killed, seeded changes %d/%d detected, benign refactors %d/%d silent" % (
        prop, st["mutants_killed"], st["mutants_total"], st["seeded_detected"], st["seeded_total"], st["benign_silent"], st["benign_total"]))


def run_property(prop, tier, repo, evidence_dir=None, quiet=False):
    t0 = time.time()
    seed = int(os.environ.get("VERIF_SEED", "0") or 0)
    violations = []
    known_hits = []
    ctx = None
    extract_info = {}
    try:
        d, key, nfiles = extract.facts_dir(repo)
        F = Facts(d)
        extract_info = {"facts_key": key, "source_files_hashed": nfiles, **F.meta}
        ctx = Ctx(F, prop, tier)
        mod = importlib.import_module("engine.rules." + prop)
        mod.run(ctx)
        if tier == "thorough":
            thorough_extras(ctx, prop, repo)
        ctx.finish_floors()
    except extract.ExtractError as e:
        ctx = ctx or Ctx(None, prop, tier)
        ctx.bad(prop + ".E0", "extract-failed", "fact extraction failed: the workspace or the roots harness no longer builds (fail closed)", None, str(e)[-3000:])
    known = load_known().get(prop, {})
    for o in ctx.obs:
        if not o.ok:
            if o.key in known:
                known_hits.append(o)
            else:
                violations.append(o)
    # evidence
    obs = ctx.obs
    n_ob = len(obs); n_ok = sum(1 for o in obs if o.ok)
    per_rule = {}
    for o in obs:
        r = per_rule.setdefault(o.rule, {"instances": 0, "discharged": 0})
        r["instances"] += 1; r["discharged"] += int(o.ok)
    samples = []
    seen_rules = set()
    for o in obs:      # one sample per rule first, then up to 40
        if o.rule not in seen_rules:
            seen_rules.add(o.rule); samples.append(o.as_json())
    for o in obs:
        if len(samples) >= 40:
            break
        j = o.as_json()
        if j not in samples:
            samples.append(j)
    F = ctx.F
    ev = {
        "property_id": prop, "tier": tier, "seed": seed, "level": "other",
        "coverage": {
            "explanation": "static analysis of the type-checked program: %d rule instances (obligations) enumerated exhaustively "
                           "over the monomorphic MIR / call graph extracted from the current working tree; %d discharged. "
                           "No code of the repository was executed." % (n_ob, n_ok),
            "obligations": n_ob, "discharged": n_ok, "exhaustive": True,
            "rules": [{"id": rid, "text": txt, "floor": ctx.floors.get(rid), **per_rule.get(rid, {"instances": 0, "discharged": 0})}
                      for rid, txt in ctx.rules.items()],
            "samples": samples,
            "functions_analysed": sorted(ctx.analysed["functions"])[:200],
            "n_functions_analysed": len(ctx.analysed["functions"]),
            "call_sites_analysed": ctx.analysed["call_sites"],
            "program": {"monomorphic_instances": len(F.inst) if F else 0,
                        "with_mir": sum(1 for i in F.inst if i.body is not None) if F else 0,
                        "workspace_local": sum(1 for i in F.inst if i.local) if F else 0},
            "extraction": extract_info,
            "checker_cmd": "./check %s --tier %s" % (prop, tier),
            "trusted_base": ["rustc nightly front end + MIR construction", "driver/ (fact export)", "engine/ rule code",
                             "oracle/ tables"],
            "not_decided": ctx.notes,
            "known_findings_matched": [o.key for o in known_hits],
            **({"checker_selftest": SELFTEST[prop]} if prop in SELFTEST else {}),
        },
        "assumptions": ctx.assumptions + ["only x86_64-unknown-linux-gnu configurations are compiled; cfg(windows)/aix/nto/android-32 code is not analysed"],
        "wall_s": round(time.time() - t0, 3),
        "violations": len(violations),
    }
    evidence_dir = evidence_dir or os.path.join(VERIF, "evidence")
    os.makedirs(evidence_dir, exist_ok=True)
    with open(os.path.join(evidence_dir, prop + ".json"), "w") as f:
        json.dump(ev, f, indent=1, sort_keys=False)
    for o in known_hits:
        print("KNOWN-FINDING: property=%s %s — %s" % (prop, o.key, known[o.key] or o.what))
    if violations:
        rep_dir = os.path.join(VERIF, "reports"); os.makedirs(rep_dir, exist_ok=True)
        rp = os.path.join(rep_dir, "%s.json" % prop)
        with open(rp, "w") as f:
            json.dump({"property": prop, "repo": repo, "violations": [o.as_json() for o in violations]}, f, indent=1)
        if not quiet:
            for o in violations[:12]:
                print("  [%s] %s  %s%s" % (o.rule, o.key, o.what, ("  @ " + o.where) if o.where else ""))
                if o.detail:
                    ds = json.dumps(o.detail, indent=1) if not isinstance(o.detail, str) else o.detail
                    print("      " + ds[:1500].replace("\n", "\n      "))
        print("VIOLATION property=%s replay=%s" % (prop, rp))
        return 1, ev
    if not quiet:
        print("%s: %d/%d rule instances discharged (%s tier, %.1fs)" % (prop, n_ok, n_ob, tier, time.time() - t0))
    return 0, ev


def main():
    ap = argparse.ArgumentParser()
    ap.add_argument("prop")
    ap.add_argument("--tier", default=os.environ.get("VERIF_TIER", "quick"))
    ap.add_argument("--repo", default="/repo")
    ap.add_argument("--evidence-dir", default=None)
    ap.add_argument("--replay", default=None, help="print a stored violation report")
    a = ap.parse_args()
    if a.replay:
        print(open(a.replay).read()); return 0
    if a.prop == "all":
        rc = 0
        for p in PROPS:
            r, _ = run_property(p, a.tier, a.repo, a.evidence_dir)
            rc |= r
        return rc
    rc, _ = run_property(a.prop, a.tier, a.repo, a.evidence_dir)
    return rc


if __name__ == "__main__":
    sys.exit(main())
