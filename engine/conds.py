"""Branch conditions known to hold at a block (edge dominance + E3 slicing of the switch operand)."""
from . import cfg
from .flow import flow, strip, deep_strip


def switch_edges(inst):
    """yield (bb, target, label, discr_exprs) for every switch edge"""
    for b, bl in enumerate(inst.blocks):
        t = bl["t"]
        if t["k"] == "switch":
            ex = flow(inst).term_operand(b, t["d"])
            for tgt, lab in inst.succ_labeled(b):
                yield b, tgt, lab, ex, t


def _reach_without_edge(inst, src, dst_edge, unwind=True):
    """blocks reachable from entry when edge (a->b with label) is removed"""
    a, b, lab = dst_edge
    seen = set(); st = [0]
    while st:
        x = st.pop()
        if x in seen:
            continue
        seen.add(x)
        for s, l in inst.succ_labeled(x):
            if not unwind and l == "unw":
                continue
            if x == a and s == b and l == lab:
                continue
            if s not in seen:
                st.append(s)
    return seen


def facts_at(inst, bb, unwind=True):
    """list of (discr_expr, label_info) for switch edges that every entry->bb path must take.
    label_info = ('eq', v) for a value edge, ('ne', [vals]) for the otherwise edge."""
    out = []
    for (b, tgt, lab, exprs, t) in switch_edges(inst):
        r = _reach_without_edge(inst, 0, (b, tgt, lab), unwind)
        if bb in r:
            continue
        if lab.startswith("sw:"):
            info = ("eq", int(lab[3:]))
        else:
            info = ("ne", [v for v, _ in t["vals"]])
        for e in exprs:
            out.append((deep_strip(e), info, b))
    return out


def truth(info, dty_bool=True):
    """for a boolean discriminant: True / False / None"""
    if info[0] == "eq":
        return info[1] != 0
    if info[0] == "ne" and info[1] == [0]:
        return True
    return None


def edge_dominates(inst, edge, bb, unwind=True):
    return bb not in _reach_without_edge(inst, 0, edge, unwind)
