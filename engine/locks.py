"""E5: lock analysis — held-lock tokens, acquiring wrappers, critical sections, poison tolerance, lock order."""
import re
from . import cfg
from .flow import flow, deep_strip, strip, show, field_path, mentions
from .facts import strip_generics, AnchorLost

MUTEX_LOCK = "std::sync::poison::mutex::Mutex::<T>::lock"
GUARD_RE = re.compile(r"std::sync::poison::mutex::MutexGuard<")
ONCE_CALL = "std::sync::once::Once::call_once"


class Acq:
    def __init__(self, inst, bb, lock, kind):
        self.inst = inst; self.bb = bb; self.lock = lock; self.kind = kind   # kind: direct|wrapper|once
        self.tolerant = None; self.how = ""


class LockInfo:
    def __init__(self, F):
        self.F = F
        self.wrapper_tys = self._wrapper_types()
        self.token_re = re.compile("|".join([GUARD_RE.pattern, r"signal_hook_registry::half_lock::ReadGuard<"] + [re.escape(w) + "<" for w in self.wrapper_tys]))
        self.wrappers = {}        # inst id -> lock id  (functions returning a token)
        self.acqs = []            # all acquisitions
        self.regions = {}         # (inst id, lock) -> set of blocks where the lock is held
        self._analyse()

    def _wrapper_types(self):
        """workspace ADTs that (transitively) contain a MutexGuard field"""
        adts = {}
        for c, a in self.F.crate_items("adts"):
            adts[a["path"]] = a
        out = set()
        changed = True
        while changed:
            changed = False
            for p, a in adts.items():
                if p in out:
                    continue
                for v in a["variants"]:
                    for f in v["fields"]:
                        if GUARD_RE.search(f["ty"]) or any((w + "<") in f["ty"] for w in out):
                            out.add(p); changed = True
        return sorted(out)

    def is_token_ty(self, ty):
        return bool(self.token_re.search(ty))

    def lock_id_of_mutex_expr(self, exprs):
        ids = set()
        for e in exprs:
            root, names = field_path(e)
            bt = None
            x = deep_strip(e)
            # find the innermost field node to get its base type
            while x[0] in ("ref", "deref"):
                x = x[1]
            if x[0] == "field":
                bt = x[4]
            fld = [n for n in names if not n.startswith("as:") and n != "[]"]
            if fld:
                ids.add("%s.%s" % (bt or "?", fld[-1]))
            else:
                ids.add("?:" + show(e))
        return "|".join(sorted(ids))

    def _analyse(self):
        F = self.F
        # 1. direct acquisitions
        direct = {}
        for m in F.inst:
            if m.body is None:
                continue
            for bb, t in m.calls():
                if t.get("f") is None:
                    continue
                d = F.inst[t["f"]].defp
                if d == MUTEX_LOCK and m.local and m.crate != "vroots":
                    lid = self.lock_id_of_mutex_expr(flow(m).term_arg(bb, 0))
                    a = Acq(m, bb, lid, "direct")
                    self._tolerance(a)
                    self.acqs.append(a)
                    direct.setdefault(m.id, []).append((bb, lid))
        # 1b. read guards of the half lock are held "reader locks": writers wait for them, so holding one while acquiring a writer
        #     mutex is a lock-order edge like any other
        self.read_fns = {}
        self.reader_lock_of = {}      # writer mutex lock id -> the ".readers" pseudo-lock of the same half lock
        try:
            from .rules import hl as _hl
            R_ = _hl.Roles(F)
            for T in _hl.lock_types(F):
                V = _hl.View(F, R_, T)
                rl = "signal_hook_registry::half_lock::HalfLock<%s>.readers" % T
                for m in V.readers:
                    self.read_fns[m.id] = rl
                self.reader_lock_of["signal_hook_registry::half_lock::HalfLock<%s>.%s" % (T, R_.mutex[1])] = rl
        except AnchorLost:
            pass
        # 2. wrappers: fixpoint — a function whose return type is a token type and that holds a token at return
        changed = True
        tokens = {}   # inst id -> {local: lock id}
        while changed:
            changed = False
            for m in F.inst:
                if m.body is None or not m.local:
                    continue
                tk = self._tokens(m, direct.get(m.id, []))
                tokens[m.id] = tk
                if self.is_token_ty(m.local_ty(0)) and 0 in tk and m.id not in self.wrappers:
                    self.wrappers[m.id] = tk[0]; changed = True
        self.tokens = tokens
        for m in F.inst:
            if m.body is None or not m.local:
                continue
            for bb, t in m.calls():
                if t.get("f") in self.wrappers:
                    self.acqs.append(Acq(m, bb, self.wrappers[t["f"]], "wrapper"))
                elif t.get("f") in self.read_fns:
                    self.acqs.append(Acq(m, bb, self.read_fns[t["f"]], "reader"))
                elif t.get("f") is not None and F.inst[t["f"]].defp == ONCE_CALL:
                    lid = "Once:" + self.lock_id_of_mutex_expr(flow(m).term_arg(bb, 0))
                    self.acqs.append(Acq(m, bb, lid, "once"))
        # 3. regions
        for mid, tk in tokens.items():
            m = F.inst[mid]
            by_lock = {}
            for l, lid in tk.items():
                by_lock.setdefault(lid, set()).add(l)
            for lid, locs in by_lock.items():
                self.regions[(mid, lid)] = self._region(m, locs)

    def _tokens(self, m, direct):
        """{local: lock id} for locals of token type in m"""
        F = self.F
        tk = {}
        for bb, lid in direct:
            d = m.term(bb).get("dest")
            if d and not d["p"]:
                tk[d["l"]] = lid
        for bb, t in m.calls():
            if t.get("f") in self.wrappers:
                d = t.get("dest")
                if d and not d["p"]:
                    tk[d["l"]] = self.wrappers[t["f"]]
            if t.get("f") in getattr(self, "read_fns", {}):
                d = t.get("dest")
                if d and not d["p"]:
                    tk[d["l"]] = self.read_fns[t["f"]]
        changed = True
        while changed:
            changed = False
            for bb, bl in enumerate(m.blocks):
                for s in bl["s"]:
                    if s["k"] != "assign" or s["l"]["p"]:
                        continue
                    dst = s["l"]["l"]
                    if dst in tk or not self.is_token_ty(m.local_ty(dst)):
                        continue
                    for src in _moved_locals(s["r"]):
                        if src in tk:
                            tk[dst] = tk[src]; changed = True
                t = bl["t"]
                if t["k"] == "call" and t.get("dest") and not t["dest"]["p"]:
                    dst = t["dest"]["l"]
                    if dst not in tk and self.is_token_ty(m.local_ty(dst)):
                        for a in t["args"]:
                            if a["k"] == "move" and not a["p"]["p"] and a["p"]["l"] in tk:
                                tk[dst] = tk[a["p"]["l"]]; changed = True
        return tk

    def _region(self, m, locs):
        """blocks in which one of the token locals is live-and-owned (between its definition and its drop/move-out)"""
        held = set()
        for l in locs:
            defs = []
            for bb, bl in enumerate(m.blocks):
                for s in bl["s"]:
                    if s["k"] == "assign" and not s["l"]["p"] and s["l"]["l"] == l:
                        defs.append(("stmt", bb))
                t = bl["t"]
                if t["k"] == "call" and t.get("dest") and not t["dest"]["p"] and t["dest"]["l"] == l:
                    defs.append(("call", bb))
            release = set()
            for bb, bl in enumerate(m.blocks):
                t = bl["t"]
                if t["k"] == "drop" and not t["p"]["p"] and t["p"]["l"] == l:
                    release.add(bb)
                if t["k"] == "call":
                    for a in t["args"]:
                        if a["k"] == "move" and not a["p"]["p"] and a["p"]["l"] == l:
                            release.add(bb)
                for s in bl["s"]:
                    if s["k"] == "assign" and l in _moved_locals(s["r"]):
                        release.add(bb)
            for kind, bb in defs:
                if kind == "stmt":
                    r = cfg.reachable(m, bb, avoid=release - {bb})
                    held |= r
                    held |= {b for b in release if any(b in m.succ(x) for x in r) or b == bb}
                else:
                    starts = [s for s, lab in m.succ_labeled(bb) if lab == "ret"]
                    for s0 in starts:
                        if s0 in release:
                            held.add(s0); continue
                        r = cfg.reachable(m, s0, avoid=release)
                        held |= r
                        held |= {b for b in release if any(b in m.succ(x) for x in r)}
        return held

    def _tolerance(self, a):
        """how is the Result of Mutex::lock consumed?"""
        F = self.F; m = a.inst
        d = m.term(a.bb).get("dest")
        a.tolerant = False; a.how = "result not consumed by a recognised idiom"
        if not d or d["p"]:
            return
        l = d["l"]
        for bb, t in m.calls():
            if t.get("f") is None:
                continue
            if any(x["k"] == "move" and not x["p"]["p"] and x["p"]["l"] == l for x in t["args"]):
                callee = F.inst[t["f"]]
                dp = callee.defp
                if dp == "core::result::Result::<T, E>::unwrap_or_else":
                    a.tolerant = True; a.how = "unwrap_or_else(%s)" % (callee.args[-1] if callee.args else "")
                elif dp in ("core::result::Result::<T, E>::unwrap", "core::result::Result::<T, E>::expect"):
                    a.tolerant = False; a.how = dp.split("::")[-1] + "() — panics when the mutex is poisoned"
                elif dp.endswith("::Try>::branch") or dp.endswith("Try::branch"):
                    a.tolerant = False; a.how = "`?` — fails when the mutex is poisoned"
                elif dp in ("core::result::Result::<T, E>::unwrap_or_default", "core::result::Result::<T, E>::ok",
                            "core::result::Result::<T, E>::map_err"):
                    a.tolerant = False; a.how = dp
                else:
                    a.tolerant = False; a.how = "passed to " + dp
                return
        # match on the discriminant with an into_inner arm
        for bb, bl in enumerate(m.blocks):
            t = bl["t"]
            if t["k"] == "switch":
                for e in flow(m).term_operand(bb, t["d"]):
                    e = deep_strip(e)
                    if e[0] == "discr" and strip(e[1])[0] == "call" and strip(e[1])[1] == a.bb:
                        uses_inner = any(F.inst[t2["f"]].defp.endswith("PoisonError::<T>::into_inner") for _, t2 in m.calls() if t2.get("f") is not None)
                        a.tolerant = uses_inner
                        a.how = "match with into_inner arm" if uses_inner else "match without a poison-recovering arm"
                        return

    def analyse_body(self, nm):
        """lock facts of an arbitrary body (a normal form): ([(bb, lock id, kind)] acquisitions, {lock id: held blocks})"""
        F = self.F
        direct = []
        acq = []
        for bb, t in nm.calls():
            if t.get("f") is None:
                continue
            c = F.inst[t["f"]]
            if c.defp == MUTEX_LOCK:
                lid = self.lock_id_of_mutex_expr(flow(nm).term_arg(bb, 0))
                direct.append((bb, lid)); acq.append((bb, lid, "direct"))
            elif t["f"] in self.wrappers:
                acq.append((bb, self.wrappers[t["f"]], "wrapper"))
        tk = self._tokens(nm, direct)
        by_lock = {}
        for l, lid in tk.items():
            by_lock.setdefault(lid, set()).add(l)
        regions = {lid: self._region(nm, locs) for lid, locs in by_lock.items()}
        return acq, regions

    # ---- queries ---------------------------------------------------------------------------
    def held_calls(self, mid, lock):
        """call / drop sites inside the critical section: [(bb, term)]"""
        m = self.F.inst[mid]
        out = []
        reg = self.regions.get((mid, lock), set())
        for bb in sorted(reg):
            t = m.term(bb)
            if t["k"] in ("call", "drop", "assert"):
                out.append((bb, t))
        return out

    def locks(self):
        return sorted({a.lock for a in self.acqs})


def _moved_locals(rv):
    out = set()

    def op(o):
        # a move out of a projection (`move ((_r as Ok).0)`) hands the payload — for token types, the guard — to the destination
        if o and o.get("k") == "move" and not any(p["k"] == "deref" for p in o["p"]["p"]):
            out.add(o["p"]["l"])
    k = rv["k"]
    if k == "use":
        op(rv["o"])
    elif k == "aggregate":
        for o in rv["ops"]:
            op(o)
    elif k == "cast":
        op(rv["o"])
    return out


_li = {}


def lockinfo(F):
    if id(F) not in _li:
        _li[id(F)] = LockInfo(F)
    return _li[id(F)]
