"""What MANIFEST.json claims, per property (single source for tools_gen_manifest.py)."""

TB = ("Trusted: rustc nightly front end/MIR construction, the fact exporter, rule code, oracle tables; std internals summarised by "
      "leaf class; closed world = the roots harness + sealed-trait witnesses; x86_64-linux configuration only.")

CLAIMS = {
    "C03": {
        "text": "Static effect analysis: every path of the monomorphic call graph from the signal dispatcher and every built-in "
                "action closure to a classified leaf is enumerated; no lock/wait/alloc/free/unclassified leaf, loops are "
                "iterator-driven or CAS-retry, explicit panic sites are discharged or audited. Holds for every arrival instant at "
                "once because it is a reachability fact, which no test schedule can establish.",
        "note": TB + " Not decided: a numeric step bound; value-level panic-freedom of the audited channel sites.",
        "technique": "static analysis: call-graph effect reachability over MIR (RTA for dyn calls) + loop-shape and panic-site rules",
    },
    "C13": {
        "text": "Static CFG/dataflow rules: exactly one write/send of constant length 1 per wake on every path, MSG_DONTWAIT constant, "
                "O_NONBLOCK established before a write-mode descriptor can reach an action, close only in the owner's Drop, owner "
                "never duplicated, RAII on every exit of register_raw.",
        "note": TB + " Not decided: byte-count inequalities, descriptor-kind detection (value-level).",
        "technique": "static analysis: must-pass-through / exactly-once path rules on MIR CFGs + constant folding + who-may-call",
    },
    "C12": {
        "text": "Static lock/effect rules: the id-table mutex is acquired poison-tolerantly or has no explicit panic site in any critical "
                "section; no panic site reachable from Drop of the delivery state or from any Exfiltrator::init (retry-safe, CAS from null); "
                "Drop unregisters the whole table; no capture cycle / forget on delivery types; with_pipe RAII; re-add guarded by the same "
                "index being None and written only after Ok; the id of every successful registration is recorded before the next registration call; the "
                "destructor reaches its unregistering code on every path (also with a poisoned table). Found and repaired two genuine defects (fixed: entries).",
        "note": TB + " Not decided: 'exactly as before' as a behavioural equivalence over arbitrary call sequences.",
        "technique": "static analysis: lock critical-section / panic-site reachability, must-pass-through and control-dependence rules on MIR",
    },
    "C01": {
        "text": "Static order/ownership rules on both HalfLock<T> instantiations: free only after the completed reader barrier that follows the swap "
                "(must-pass-through), reader count before pointer load (dominance), guard built from that pointer/slot and released exactly once, the "
                "four store-buffering accesses SeqCst and the release >= Release (orderings invisible on x86), barrier reads the whole slot array, "
                "who-may-free, no FREE leaf in the dispatch cone; the wait's bookkeeping: seen-idle flags start false, are raised only on a slot read as 0, "
                "and a flag found false keeps the writer waiting (path rule: no free within the same round).",
        "note": TB + " Not decided: correctness of the grace-period protocol as a whole (the structural necessary conditions above are decided, not the interleaving argument).",
        "technique": "static analysis: dominance / must-pass-through on MIR CFGs, atomic-ordering inventory vs litmus minima, who-may-call, effect reachability",
    },
    "C18": {
        "text": "Static lock analysis: acquired-while-holding graph over the four locks is acyclic and the fallback lock is only taken under the data "
                "lock; writer mutex acquisitions are poison-tolerant and other locks have no panic site inside critical sections; the read path has no "
                "loop and no LOCK/WAIT leaf, the only wait loop is writer-side and polls only reader slots; reader increments are paired with decrements of the same amount, counters start at zero, the generation flips by an odd constant, the wait loop samples inside its body.",
        "note": TB + " Not decided: termination of the barrier's value-level logic; scheduler fairness.",
        "technique": "static analysis: lock-order graph, poison-tolerance idiom classification, loop/leaf rules over the call graph",
    },
    "C02": {
        "text": "Static CFG/dataflow rules on the dispatcher and the mutators: exactly one read guard per delivery (all paths, no loop), lookup keyed by "
                "the handler's own signal argument, one forward B-tree iteration of the looked-up slot calling each yielded action once, ids = next_id "
                "(+1 only, on the clone) = B-tree key order, copy-on-write publish by value with swap as the only pointer write and no DerefMut on guards.",
        "note": TB + " Not decided: the linearizability statement (which registrations a concurrent delivery must see).",
        "technique": "static analysis: exactly-once path rules, def-use provenance of keys/iterators, who-writes inventory over MIR",
    },
    "C04": {
        "text": "Static order/provenance rules: chained call exactly once, outside loops, dominating every action; the dispatcher's own three arguments; "
                "one-/three-argument convention control-dependent on SA_SIGINFO clear/set (edge-labelled branch facts) and guarded by fptr not in {0,DFL,IGN}; "
                "fallback stored before the installing sigaction and never published before it; fallback guard before data guard; fallback chain "
                "only on lookup miss and prev.signal == sig. The suite never executes this code at all.",
        "note": TB + " Not decided: atomicity w.r.t. foreign sigaction callers (documented race).",
        "technique": "static analysis: dominance, control-dependence facts on switch edges, argument provenance over MIR",
    },
    "C05": {
        "text": "Static who-writes / footprint / constant rules: next_id written only as old+1 on the clone by the registering function, SigId = (signal "
                "parameter, pre-increment id) returned only after the publish; forbidden map-method sets per mutator with keys traced to id.signal / "
                "id.action / signal; register inserts its action argument (and a newly made slot) before the publish on every path; return value and publish condition are the same boolean; every sigaction site is install (flags fold to "
                "SA_RESTART|SA_SIGINFO, dispatcher address), query (null) or the terminating SIG_DFL restore; SigId fields private.",
        "note": TB + " Not decided: equivalence to the abstract multiset model over arbitrary histories.",
        "technique": "static analysis: who-may-write inventory, key provenance, constant folding of flag words, control-dependence on MIR",
    },
    "C14": {
        "text": "Static call-graph cut + CFG rules: with the function holding the FORBIDDEN assertion removed, no public function of any workspace "
                "crate (36 entry points incl. adapters) reaches the registering function except the two documented *_unchecked ones; the assertion "
                "tests the function's own signal against FORBIDDEN before any effect and the action is dropped on the panic path; FORBIDDEN is a "
                "superset of the five named signals; OS errors gate the publish; locks tolerate the documented panics; iterator range asserts "
                "precede init/registration.",
        "note": TB + " Not decided: which numbers the OS rejects; observable equality of dispositions.",
        "technique": "static analysis: def-level call-graph cut (CHA), control-dependence and dominance on MIR, constant-table decoding",
    },
    "C15": {
        "text": "Static constant/provenance/control-dependence rules on the three flag action closures and low_level::exit: exactly one unconditional "
                "store of the constant true (resp. the captured value) into the caller's atomic; termination only on the true edge of a fresh load of "
                "the caller's condition, with the captured status, through libc::_exit and nothing else; emulation of the registered signal likewise.",
        "note": TB + " Not decided: arm/disarm histories (they follow from the per-invocation rule plus C02 order).",
        "technique": "static analysis: constant folding, upvar provenance, control-dependence on MIR; FFI symbol check",
    },
    "C16": {
        "text": "Table agreement + path order: all 30 rows of DETAILS are compared (name<->number, default kind) with the kernel's default-disposition "
                "masks transcribed in oracle/; the terminate path is restore SIG_DFL -> unblock {signal} -> raise(signal) in dominance order and never "
                "returns, stop raises SIGSTOP, ignore makes no call, every effect is dominated by the successful lookup. Found and repaired SIGIO.",
        "note": TB + " Oracle transcribed from include/linux/signal.h / signal(7). Not decided: what the kernel does with the re-raised signal.",
        "technique": "static analysis: decoded constant table vs oracle, dominance on the MIR CFG, constant arguments",
    },
    "C17": {
        "text": "Sibling-table agreement across languages: clang AST of extract.c (consts[] rows, matcher condition, readers) vs the repr(u8) enum, "
                "From<ICause> and has_process decoded from MIR, vs the sigaction(2) field-validity oracle; pid/uid readers only under has_process of "
                "the same record; extern declarations agree.",
        "note": TB + " clang with host glibc headers. Not decided: what the kernel writes into siginfo_t.",
        "technique": "static analysis: cross-language table agreement (clang AST + MIR switch decoding), control-dependence",
    },
    "C07": {
        "text": "Static typestate/ordering/type rules on the channel: every cell access uses an index obtained by a successful take from one queue word "
                "and hands exactly that index to the other word on every path (send empty->full, recv full->empty, new() fills empty); take CAS >= "
                "Acquire, give CAS >= Release, queue words written by CAS only, exfiltrator pointer Release/Acquire; unsafe Send/Sync impls carry T: Send; "
                "no bitwise move/forget of the payload, assignment-with-drop, rejected value dropped by send.",
        "note": TB + " Not decided: the happens-before theorem itself; the rules check the declared orderings and ownership shape the argument needs.",
        "technique": "static analysis: index provenance/typestate on MIR, atomic-ordering inventory, impl-predicate facts, zero-count escape rules",
    },
    "C08": {
        "text": "Static effect/loop/constant rules: no lock/wait/alloc/free/syscall leaf reachable from new/send/recv, loops are CAS-retry or finite "
                "iterator loops, a full channel goes straight to return, new() hands out exactly 1..=SLOTS, SLOTS*BITS<=16, MASK=(1<<BITS)-1, "
                "SLOTS<1<<BITS; explicit panic sites are the three audited ones resting on index conservation.",
        "note": TB + " Not decided: that the lane arithmetic implements a contiguous queue (value-level), hence panic-freedom proper.",
        "technique": "static analysis: call-graph effect reachability, loop-shape rules, constant relations, panic-site inventory",
    },
    "C09": {
        "text": "Static ordering-protocol rules: in all three iterator actions the slot store dominates the wake and both happen on every path; load is "
                "called only while scanning, the drain only from pending() and before anything that can reach load, batches are built fresh with "
                "position 0; poll_signal asks the callback only after next() returned None and scans a new batch first; next() advances only on None.",
        "note": TB + " Not decided: the liveness theorem over all interleavings; weak-memory outcomes (ordered by the send/recv system calls).",
        "technique": "static analysis: dominance / must-pass-through on MIR CFGs, who-may-call over the call graph, control-dependence facts",
    },
    "C10": {
        "text": "Static RMW/provenance rules: SignalOnly::load yields Some only where compare_exchange(true->false) succeeded; channel-backed loads return "
                "what Channel::recv handed out; next() uses one position as slot index and signal number; the action stores into slots[captured signal] "
                "registered for that signal; the record is a by-value copy of the handler's info; WithOrigin delegates on the same slot.",
        "note": TB + " Not decided: counting inequalities over histories; per-signal record order (C06).",
        "technique": "static analysis: branch facts on atomic RMW results, index/argument provenance over MIR",
    },
    "C11": {
        "text": "Static rules: closed is only ever stored true; close() stores before waking and always wakes; PollResult::Pending is constructed only "
                "on the readiness callback's Ok(false) branch of that invocation (a delegate must consult the callback on every path) and adapters "
                "return Poll::Pending only from that arm; blocking callbacks are consulted only when not closed; every recv carries MSG_DONTWAIT. "
                "Found and repaired the closed-early-return defect.",
        "note": TB + " Assumes a callback answering Ok(false) has armed a wake-up. Not decided: liveness of the kernel's wake-up delivery.",
        "technique": "static analysis: control-dependence facts, must-pass-through callee summaries, constant arguments on MIR",
    },
}

PENDING = "check under construction in this round (rules designed in DESIGN.md §4); not claimed until the rule set runs clean"
NOT_APPLICABLE = {
    "C06": "linearizability of concurrent histories plus value-level 3-bit lane arithmetic: not visible in code shape; the only "
           "sound routes are execution/model checking (different technique family). Structural neighbours are decided under C07/C08.",
}
for p in ["C01", "C02", "C04", "C05", "C07", "C08", "C09", "C10", "C11", "C12", "C14", "C15", "C16", "C17", "C18"]:
    if p not in CLAIMS:
        NOT_APPLICABLE[p] = PENDING
