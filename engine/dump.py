"""debug: python3 -m engine.dump '<name regex>' [--repo PATH]  — readable MIR of matching instances"""
import re, sys
from . import extract
from .facts import Facts


def P(p):
    s = "_%d" % p["l"]
    for x in p["p"]:
        k = x["k"]
        if k == "deref": s = "(*%s)" % s
        elif k == "field": s = "%s.%s" % (s, x["n"])
        elif k == "index": s = "%s[_%d]" % (s, x["l"])
        elif k == "cindex": s = "%s[%d]" % (s, x["i"])
        elif k == "downcast": s = "(%s as %s)" % (s, x["v"])
        else: s = "%s.?%s" % (s, k)
    return s


def O(o):
    if o["k"] == "const":
        c = o["c"]
        if "fn" in c: return "fn#%d(%s)" % (c["fn"], c.get("def", ""))
        return "const %s%s" % (c.get("def", c.get("repr", "")), ("=%s" % c["val"]) if "val" in c else "")
    if o["k"] in ("copy", "move"): return "%s %s" % (o["k"], P(o["p"]))
    return o["k"]


def R(r):
    k = r["k"]
    if k == "use": return O(r["o"])
    if k == "ref": return "&%s %s" % (r["m"], P(r["p"]))
    if k == "rawptr": return "&raw %s" % P(r["p"])
    if k == "cast": return "%s as %s (%s%s)" % (O(r["o"]), r["to"], r["ck"], (" fn#%d" % r["fn"]) if "fn" in r else "")
    if k == "binop": return "%s(%s, %s)" % (r["op"], O(r["a"]), O(r["b"]))
    if k == "unop": return "%s(%s)" % (r["op"], O(r["a"]))
    if k == "discr": return "discr(%s)" % P(r["p"])
    if k == "aggregate":
        return "%s{%s}" % (r.get("def", r["ak"]) + (("::" + r["variant"]) if "variant" in r else ""), ", ".join(O(x) for x in r["ops"]))
    return k + ":" + r.get("repr", "")[:60]


def dump(F, i):
    print("== #%d %s  [%s%s] %s" % (i.id, i.name, i.kind, " local" if i.local else "", i.span))
    if i.body is None:
        print("   (no MIR)", i.impls or ""); return
    for n, t in enumerate(i.body["locals"]):
        print("   _%d: %s" % (n, t))
    for bi, bl in enumerate(i.blocks):
        print(" bb%d%s:" % (bi, " (cleanup)" if bl["cleanup"] else ""))
        for s in bl["s"]:
            if s["k"] == "assign": print("     %s = %s" % (P(s["l"]), R(s["r"])))
            else: print("     %s" % s["k"])
        t = bl["t"]; k = t["k"]
        if k == "call":
            print("     %s = CALL %s(%s) -> bb%s unw %s   @%s" % (P(t["dest"]) if "dest" in t else "_", ("#%s %s" % (t["f"], F.inst[t["f"]].name[:110])) if t.get("f") is not None else "INDIRECT " + O(t["fop"]),
                                                         ", ".join(O(a) for a in t["args"]), t.get("ret"), t.get("unw"), t["sp"].split("/")[-1]))
        elif k == "switch":
            print("     SWITCH %s %s else bb%d" % (O(t["d"]), t["vals"], t["else"]))
        elif k == "drop":
            print("     DROP %s : %s -> bb%s unw %s" % (P(t["p"]), t["ty"][:90], t["ret"], t["unw"]))
        elif k == "assert":
            print("     ASSERT %s == %s (%s) -> bb%s" % (O(t["cond"]), t["expected"], t["msg"], t["ret"]))
        elif k == "goto":
            print("     GOTO bb%d" % t["ret"])
        else:
            print("     " + k.upper())


if __name__ == "__main__":
    repo = "/repo"
    a = sys.argv[1:]
    if "--repo" in a:
        repo = a[a.index("--repo") + 1]; a = [x for x in a if x not in ("--repo", repo)]
    d, _, _ = extract.facts_dir(repo)
    F = Facts(d)
    for i in F.inst:
        if re.search(a[0], i.name):
            dump(F, i)
