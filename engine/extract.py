"""E0: run the fact-exporting driver over the repo's current working tree (cached by content hash)."""
import fcntl, hashlib, json, os, shutil, subprocess, sys, tempfile, time

VERIF = os.path.dirname(os.path.dirname(os.path.abspath(__file__)))
DRIVER_DIR = os.path.join(VERIF, "driver")
DRIVER = os.path.join(DRIVER_DIR, "target", "release", "shv-driver")
CACHE = os.path.join(VERIF, ".cache")
WS = "signal_hook,signal_hook_registry,signal_hook_tokio,signal_hook_mio,signal_hook_async_std"
RUSTFLAGS = "-Zmir-opt-level=0 -Zalways-encode-mir -Awarnings -Cdebug-assertions=off -Coverflow-checks=off"
EXTRACT_VERSION = "7"
SKIP_DIRS = {"target", ".git"}


class ExtractError(Exception):
    pass


def _sha_file(p, h):
    with open(p, "rb") as f:
        while True:
            b = f.read(1 << 16)
            if not b:
                break
            h.update(b)


def tree_hash(repo):
    h = hashlib.sha256()
    h.update(EXTRACT_VERSION.encode()); h.update(RUSTFLAGS.encode())
    files = []
    for root, dirs, fs in os.walk(repo):
        dirs[:] = sorted(d for d in dirs if d not in SKIP_DIRS)
        for f in sorted(fs):
            p = os.path.join(root, f)
            if os.path.islink(p) or not os.path.isfile(p):
                continue
            files.append(p)
    for p in files:
        h.update(os.path.relpath(p, repo).encode()); h.update(b"\0")
        _sha_file(p, h)
    for p in (os.path.join(VERIF, "roots", "lib.rs"), os.path.join(VERIF, "roots", "Cargo.toml.in"),
              os.path.join(DRIVER_DIR, "src", "main.rs"), os.path.join(DRIVER_DIR, "src", "json.rs")):
        _sha_file(p, h)
    return h.hexdigest()[:24], len(files)


def sysroot_lib():
    out = subprocess.run(["rustc", "+nightly", "--print", "sysroot"], capture_output=True, text=True, check=True)
    return os.path.join(out.stdout.strip(), "lib")


def ensure_driver():
    src_m = max(os.path.getmtime(os.path.join(DRIVER_DIR, "src", f)) for f in ("main.rs", "json.rs"))
    if os.path.exists(DRIVER) and os.path.getmtime(DRIVER) >= src_m:
        return
    env = dict(os.environ, CARGO_NET_OFFLINE="true")
    r = subprocess.run(["cargo", "+nightly", "build", "--release", "--offline"], cwd=DRIVER_DIR, env=env,
                       capture_output=True, text=True)
    if r.returncode != 0:
        raise ExtractError("driver build failed:\n" + r.stderr[-4000:])


def c_ast(repo, out):
    """reduce the clang AST of extract.c to the table and function shapes (E0.g)"""
    src = os.path.join(repo, "src", "low_level", "extract.c")
    if not os.path.exists(src):
        return False
    r = subprocess.run(["clang", "-fsyntax-only", "-Xclang", "-ast-dump=json", src], capture_output=True, text=True)
    if r.returncode != 0:
        raise ExtractError("clang failed on extract.c:\n" + r.stderr[-2000:])
    tu = json.loads(r.stdout)

    def red(n):
        if not isinstance(n, dict):
            return None
        o = {"kind": n.get("kind")}
        for k in ("name", "value", "opcode", "castKind", "isArrow"):
            if k in n:
                o[k] = n[k]
        if "type" in n:
            o["type"] = n["type"].get("qualType")
        if "referencedDecl" in n:
            o["ref"] = {"name": n["referencedDecl"].get("name"), "kind": n["referencedDecl"].get("kind")}
        if "referencedMemberDecl" in n:
            o["member_id"] = n["referencedMemberDecl"]
        if "loc" in n and "line" in n["loc"]:
            o["line"] = n["loc"]["line"]
        elif "range" in n and "line" in n["range"].get("begin", {}):
            o["line"] = n["range"]["begin"]["line"]
        inner = [red(x) for x in n.get("inner", [])]
        inner = [x for x in inner if x is not None]
        if inner:
            o["inner"] = inner
        return o
    decls = []
    in_main = False
    for d in tu.get("inner", []):
        loc = d.get("loc", {})
        # clang only prints "file" when it changes
        if "file" in loc:
            in_main = loc["file"].endswith("extract.c")
        elif "includedFrom" in loc or "spellingLoc" in loc:
            sl = loc.get("spellingLoc", {})
            if "file" in sl:
                in_main = sl["file"].endswith("extract.c")
        if in_main and d.get("kind") in ("VarDecl", "FunctionDecl", "RecordDecl"):
            decls.append(red(d))
    # enum constant values referenced by the table (from any header)
    enums = {}

    def walk(n):
        if isinstance(n, dict):
            if n.get("kind") == "EnumConstantDecl":
                v = None
                for x in n.get("inner", []):
                    if x.get("kind") == "ConstantExpr" and "value" in x:
                        v = x["value"]
                enums[n.get("name")] = v
            for x in n.get("inner", []):
                walk(x)
    walk(tu)
    json.dump({"decls": decls, "enums": enums}, open(out, "w"))
    return True


def extract(repo, dest):
    ensure_driver()
    tmp = tempfile.mkdtemp(prefix="shv-extract-")
    try:
        roots = os.path.join(tmp, "roots"); os.makedirs(os.path.join(roots, "src"))
        facts = os.path.join(tmp, "facts"); os.makedirs(facts)
        toml = open(os.path.join(VERIF, "roots", "Cargo.toml.in")).read().replace("@REPO@", repo)
        open(os.path.join(roots, "Cargo.toml"), "w").write(toml)
        shutil.copy(os.path.join(VERIF, "roots", "lib.rs"), os.path.join(roots, "src", "lib.rs"))
        lock = os.path.join(repo, "Cargo.lock")
        if os.path.exists(lock):
            shutil.copy(lock, os.path.join(roots, "Cargo.lock"))
        env = dict(os.environ)
        env.update({
            "CARGO_NET_OFFLINE": "true",
            "VERIF_FACTS_DIR": facts,
            "VERIF_WS_CRATES": WS,
            "VERIF_ROOTS_CRATE": "vroots",
            "RUSTFLAGS": RUSTFLAGS,
            "RUSTC_WRAPPER": DRIVER,
            "CARGO_TARGET_DIR": os.path.join(tmp, "target"),
            "LD_LIBRARY_PATH": sysroot_lib() + (":" + os.environ["LD_LIBRARY_PATH"] if os.environ.get("LD_LIBRARY_PATH") else ""),
        })
        env.pop("RUSTC_WORKSPACE_WRAPPER", None)
        t0 = time.time()
        r = subprocess.run(["cargo", "+nightly", "check", "--offline", "--features", "adapters"], cwd=roots, env=env,
                           capture_output=True, text=True)
        if r.returncode != 0:
            raise ExtractError("the workspace (or the roots harness against it) does not type-check on nightly:\n"
                               + r.stderr[-6000:])
        need = ["mono.json"] + ["crate_%s.json" % c for c in WS.split(",")]
        for n in need:
            p = os.path.join(facts, n)
            if not os.path.exists(p) or os.path.getsize(p) == 0:
                raise ExtractError("fact file %s was not produced (driver skipped?)" % n)
        has_c = c_ast(repo, os.path.join(facts, "extract_c.json"))
        json.dump({"repo": repo, "cargo_s": round(time.time() - t0, 2), "has_c": has_c,
                   "rustflags": RUSTFLAGS, "features": "signal-hook[extended-siginfo] + registry + tokio[futures-v0_3] + "
                   "mio[support-v0_6,v0_7,v0_8,v1_0] + async-std", "target": "x86_64-unknown-linux-gnu",
                   "toolchain": subprocess.run(["rustc", "+nightly", "--version"], capture_output=True, text=True).stdout.strip()},
                  open(os.path.join(facts, "meta.json"), "w"))
        os.makedirs(os.path.dirname(dest), exist_ok=True)
        if os.path.exists(dest):
            shutil.rmtree(dest)
        shutil.move(facts, dest)
    finally:
        shutil.rmtree(tmp, ignore_errors=True)


def prune(keep=400, min_age_s=3600):
    """drop old fact sets; never one that was used in the last 15 minutes (another check may be reading it)"""
    d = os.path.join(CACHE, "facts")
    if not os.path.isdir(d):
        return
    now = time.time()
    ents = sorted((os.path.getmtime(os.path.join(d, e)), e) for e in os.listdir(d))
    for mt, e in ents[:-keep]:
        if now - mt <= min_age_s:
            continue
        # delete under the tree's own lock and only if it is still old: a check that has just been handed this fact set (it touches the
        # directory under the same lock) must not lose it while reading
        try:
            lf = open(os.path.join(CACHE, "locks", e), "w")
        except OSError:
            continue
        try:
            fcntl.flock(lf, fcntl.LOCK_EX | fcntl.LOCK_NB)
        except OSError:
            lf.close(); continue
        try:
            p_ = os.path.join(d, e)
            if os.path.isdir(p_) and time.time() - os.path.getmtime(p_) > min_age_s:
                shutil.rmtree(p_, ignore_errors=True)
        finally:
            fcntl.flock(lf, fcntl.LOCK_UN); lf.close()


def facts_dir(repo="/repo"):
    """facts for the repo's *current* working tree; rebuilt whenever any file changed."""
    repo = os.path.abspath(repo)
    os.makedirs(os.path.join(CACHE, "facts"), exist_ok=True)
    key, nfiles = tree_hash(repo)
    dest = os.path.join(CACHE, "facts", key)
    # one lock per tree: the same tree is never extracted twice at once, different trees (the self-test's scratch copies) extract in parallel
    os.makedirs(os.path.join(CACHE, "locks"), exist_ok=True)
    lockf = open(os.path.join(CACHE, "locks", key), "w")
    fcntl.flock(lockf, fcntl.LOCK_EX)
    try:
        if not os.path.exists(os.path.join(dest, "meta.json")):
            try:
                extract(repo, dest)
            except ExtractError as first:
                # one retry: a transient failure of the build under heavy parallel load must not be reported as a violation
                time.sleep(2)
                try:
                    extract(repo, dest)
                except ExtractError as second:
                    raise ExtractError(str(second) + "\n(first attempt: " + str(first)[-600:] + ")")
            prune()
        else:
            os.utime(dest, None)
    finally:
        fcntl.flock(lockf, fcntl.LOCK_UN)
        lockf.close()
    return dest, key, nfiles


if __name__ == "__main__":
    d, k, n = facts_dir(sys.argv[1] if len(sys.argv) > 1 else "/repo")
    print(d, k, n)
