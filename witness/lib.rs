//! Type-level witnesses. Every `compile_fail,E....` block must fail to compile with exactly that error; every twin differs only in
//! the offending line and must compile (`no_run`: compiled, never executed).

/// W1 (C07.c): a channel of a non-Send payload is not Sync.
/// ```compile_fail,E0277
/// fn is_sync<T: Sync>() {}
/// is_sync::<signal_hook::low_level::channel::Channel<std::rc::Rc<()>>>();
/// ```
/// twin:
/// ```no_run
/// fn is_sync<T: Sync>() {}
/// is_sync::<signal_hook::low_level::channel::Channel<std::sync::Arc<()>>>();
/// ```
pub struct W1;

/// W2 (C05.e): a SigId cannot be forged — its fields are private.
/// ```compile_fail,E0451
/// let a = signal_hook::flag::register(10, Default::default()).unwrap();
/// let _b = signal_hook::SigId { ..a };
/// ```
/// twin:
/// ```no_run
/// let a = signal_hook::flag::register(10, Default::default()).unwrap();
/// let _b = a;
/// ```
pub struct W2;

/// W3 (C03 closed world): the exfiltrator trait is sealed — users cannot add `store` implementations to the dispatch cone.
/// ```compile_fail,E0603
/// use signal_hook::iterator::exfiltrator::sealed::Exfiltrator;
/// ```
/// twin:
/// ```no_run
/// use signal_hook::iterator::exfiltrator::Exfiltrator;
/// ```
pub struct W3;

/// W4 (C01/C03): actions must be Send + Sync.
/// ```compile_fail,E0277
/// let rc = std::rc::Rc::new(());
/// let _ = unsafe { signal_hook_registry::register(10, move || { let _ = &rc; }) };
/// ```
/// twin:
/// ```no_run
/// let rc = std::sync::Arc::new(());
/// let _ = unsafe { signal_hook_registry::register(10, move || { let _ = &rc; }) };
/// ```
pub struct W4;

/// W5 (C02.d): a registry snapshot cannot be mutated through the public API — `SigId` exposes nothing mutable and the registry types
/// are private.
/// ```compile_fail,E0603
/// use signal_hook_registry::half_lock::HalfLock;
/// ```
/// twin:
/// ```no_run
/// use signal_hook_registry::FORBIDDEN;
/// let _ = FORBIDDEN.len();
/// ```
pub struct W5;

/// W6 (C12/C10): `Pending` batches cannot be constructed or rewound by users (private constructor and fields).
/// ```compile_fail,E0451
/// fn f(p: signal_hook::iterator::backend::Pending<signal_hook::iterator::exfiltrator::SignalOnly>) {
///     let _ = signal_hook::iterator::backend::Pending { position: 0, ..p };
/// }
/// ```
/// twin:
/// ```no_run
/// fn f(p: signal_hook::iterator::backend::Pending<signal_hook::iterator::exfiltrator::SignalOnly>) {
///     for _ in p {}
/// }
/// ```
pub struct W6;
