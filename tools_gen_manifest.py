#!/usr/bin/env python3
"""Regenerates MANIFEST.json from engine/manifest_data.py (kept in one place so it stays valid)."""
import json, os, sys
sys.path.insert(0, os.path.dirname(os.path.abspath(__file__)))
from engine.manifest_data import CLAIMS, NOT_APPLICABLE

checks = []
for pid, c in CLAIMS.items():
    checks.append({
        "property_id": pid,
        "quick_cmd": "./check %s --tier quick" % pid,
        "thorough_cmd": "./check %s --tier thorough" % pid,
        "evidence_file": "/verif/evidence/%s.json" % pid,
        "replay_cmd_template": "./check %s --replay {path}" % pid,
        "engine": "static-rules",
        "level_claimed": {"category": "other", "text": c["text"], "design_ref": "DESIGN.md §4 %s" % pid},
        "level_note": c["note"],
        "technique": c["technique"],
    })
m = {
    "version": 1,
    "setup_cmd": "cd /verif/driver && CARGO_NET_OFFLINE=true cargo +nightly build --release --offline",
    "hooks": {
        "guard": "sighook_verif",
        "enable": "none needed: static analysis reads the unmodified source (the cfg name is reserved and unused)",
        "baseline_off_cmd": "cd /repo && cargo test --workspace --no-fail-fast --offline",
        "source_commits": [],
        "add_only": True,
    },
    "engines": [
        {"name": "static-rules", "path": "/verif/engine", "serves_properties": sorted(CLAIMS),
         "kind_free_text": "rustc_private MIR/type fact exporter (driver/) + Python rule engines over the monomorphic call graph, "
                           "CFGs (dominance / must-pass-through), def-use slicing, atomic-ordering inventory, lock analysis, "
                           "table agreement (clang AST of extract.c), compile-fail witnesses"},
    ],
    "checks": checks,
    "not_applicable": [{"property_id": k, "reason": v} for k, v in NOT_APPLICABLE.items()],
    "notes": "Technique family: static analysis only. Every check decides the structural clauses named in DESIGN.md §4 from "
             "/repo's current working tree (facts are re-extracted whenever any file changes) and reports a specific construct.",
}
json.dump(m, open(os.path.join(os.path.dirname(os.path.abspath(__file__)), "MANIFEST.json"), "w"), indent=1)
print("MANIFEST.json: %d checks, %d not_applicable" % (len(checks), len(m["not_applicable"])))
