#!/usr/bin/env python3
"""Generate mutants/*.patch from mutants/specs.py (textual one-instance edits of /repo, applied to a scratch copy)."""
import os, shutil, subprocess, sys, tempfile, importlib.util
VERIF = os.path.dirname(os.path.dirname(os.path.abspath(__file__)))
sys.path.insert(0, os.path.join(VERIF, "tools"))
from mutate import copy_repo

spec = importlib.util.spec_from_file_location("specs", os.path.join(VERIF, "mutants", "specs.py"))
specs = importlib.util.module_from_spec(spec); spec.loader.exec_module(specs)
benign = "--benign" in sys.argv
only = set(a for a in sys.argv[1:] if not a.startswith("--"))
if benign:
    spec = importlib.util.spec_from_file_location("benign", os.path.join(VERIF, "mutants", "benign.py"))
    specs = importlib.util.module_from_spec(spec); spec.loader.exec_module(specs)
    specs.MUTANTS = specs.BENIGN
    os.makedirs(os.path.join(VERIF, "mutants", "benign"), exist_ok=True)
tmp = tempfile.mkdtemp(prefix="shv-mk-")
try:
    a = os.path.join(tmp, "a"); copy_repo(a)
    for m in specs.MUTANTS:
        name = m["name"]
        if only and name not in only:
            continue
        b = os.path.join(tmp, "b")
        if os.path.exists(b):
            shutil.rmtree(b)
        shutil.copytree(a, b, symlinks=True)
        ok = True
        for (f, old, new) in m["edits"]:
            p = os.path.join(b, f)
            s = open(p).read()
            if s.count(old) != 1:
                print("!! %s: pattern occurs %d times in %s: %r" % (name, s.count(old), f, old[:60])); ok = False; break
            open(p, "w").write(s.replace(old, new))
        if not ok:
            continue
        r = subprocess.run(["diff", "-ruN", "a", "b"], cwd=tmp, capture_output=True, text=True)
        open(os.path.join(VERIF, "mutants", "benign" if benign else "", name + ".patch"), "w").write(r.stdout)
        print("wrote", name)
finally:
    shutil.rmtree(tmp, ignore_errors=True)
