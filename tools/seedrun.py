#!/usr/bin/env python3
"""Run all claimed checks against a seeded change (scratch copy of /repo with the patch applied). Prints which rules fire."""
import os, re, sys
VERIF = os.path.dirname(os.path.dirname(os.path.abspath(__file__)))
sys.path.insert(0, os.path.join(VERIF, "tools")); sys.path.insert(0, VERIF)
import mutate
from engine.run import PROPS
patch = sys.argv[1]
props = sys.argv[2:] or PROPS
res, err = mutate.run(patch, props)
if res is None:
    print(err); sys.exit(2)
fired_any = False
for p in props:
    rc, text = res[p]
    fired = re.findall(r"^\s+\[(C\d\d[.\w]*)\] (\S+)  (.*)$", text, re.M)
    if rc != 0:
        fired_any = True
        print("== %s FIRES (rc=%d)" % (p, rc))
        for r, k, w in fired[:8]:
            print("     [%s] %s — %s" % (r, k[:90], w[:150]))
    else:
        print("== %s silent" % p)
sys.exit(0 if fired_any else 1)
