#!/usr/bin/env python3
"""Checker self-test: every mutant of mutants/specs.py must make the expected rule of the expected property fire.
usage: tools/selftest.py [--props C01,C02] [--names M01,M02] [--jobs N] [--json out.json]
Never touches /repo: each mutant is applied to a scratch copy under a temp dir that is removed afterwards."""
import argparse, concurrent.futures, importlib.util, json, os, re, sys, time
VERIF = os.path.dirname(os.path.dirname(os.path.abspath(__file__)))
sys.path.insert(0, os.path.join(VERIF, "tools"))
import mutate


def load_specs():
    spec = importlib.util.spec_from_file_location("specs", os.path.join(VERIF, "mutants", "specs.py"))
    m = importlib.util.module_from_spec(spec); spec.loader.exec_module(m)
    return m.MUTANTS + getattr(m, "EXTRA", [])


def run_one(m, props=None, repo="/repo"):
    patch = os.path.join(VERIF, "mutants", m["name"] + ".patch")
    exp = {p: r for p, r in m["expect"].items() if props is None or p in props}
    if not exp:
        return None
    if not os.path.exists(patch):
        return {"name": m["name"], "status": "no-patch", "expect": exp}
    t0 = time.time()
    res, err = mutate.run(patch, sorted(exp), repo=repo)
    if res is None:
        return {"name": m["name"], "status": "skipped (patch does not apply to the current tree)", "expect": exp}
    out = {"name": m["name"], "what": m.get("what"), "expect": exp, "results": {}, "wall_s": round(time.time() - t0, 1)}
    ok = True
    for p, rule in exp.items():
        rc, text = res[p]
        fired = sorted(set(re.findall(r"^\s+\[(C\d\d[.\w]*)\]", text, re.M)))
        hit = rc == 1 and any(f.startswith(rule) for f in fired)
        if rc == 1 and not hit and any(f.endswith(".E0") for f in fired):
            out["results"][p] = {"rc": rc, "fired": fired, "verdict": "mutant does not build"}
            ok = False
            continue
        out["results"][p] = {"rc": rc, "fired": fired, "verdict": "killed" if hit else ("fired-other-rule" if rc == 1 else "ESCAPED")}
        ok = ok and hit
    out["status"] = "killed" if ok else "NOT-KILLED"
    return out


def main():
    ap = argparse.ArgumentParser()
    ap.add_argument("--props"); ap.add_argument("--names"); ap.add_argument("--jobs", type=int, default=8); ap.add_argument("--json")
    ap.add_argument("--repo", default="/repo")
    a = ap.parse_args()
    props = set(a.props.split(",")) if a.props else None
    names = set(a.names.split(",")) if a.names else None
    ms = [m for m in load_specs() if (names is None or m["name"] in names)]
    results = []
    with concurrent.futures.ThreadPoolExecutor(max_workers=a.jobs) as ex:
        for r in ex.map(lambda m: run_one(m, props, a.repo), ms):
            if r is None:
                continue
            results.append(r)
            print("%-6s %-11s %s" % (r["name"], r["status"], {p: (v["verdict"], v["fired"]) for p, v in r.get("results", {}).items()}), flush=True)
    killed = sum(1 for r in results if r["status"] == "killed")
    print("== %d mutants, %d killed, %d not killed / skipped" % (len(results), killed, len(results) - killed))
    if a.json:
        json.dump(results, open(a.json, "w"), indent=1)
    return 0 if killed == len(results) else 1


if __name__ == "__main__":
    sys.exit(main())
