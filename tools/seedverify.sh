#!/bin/sh
# usage: tools/seedverify.sh <worktree>   — confirm a seeded change: suite passes with it, demo fails with it, demo passes without it
W=$1
T=$(basename "$W")
cd "$W" || exit 2
echo "### $W"
git apply --check -R SEED/patch.diff 2>/dev/null || { git checkout -q -- . ; git apply SEED/patch.diff || exit 3; }
echo "--- diffstat"; git diff --stat | tail -3
echo "--- suite with change"
cargo test --workspace --no-fail-fast --offline 2>&1 | grep -E "^test result|FAILED|panicked|error(\[|:)" | sort | uniq -c | sort -rn | head -8
echo "--- demo with change (expect failure)"
sh SEED/demo/run.sh > /tmp/sv-demo-with-$T.log 2>&1; echo "rc=$?"; grep -E "test result|VIOLAT|violated|FAILED|panicked" /tmp/sv-demo-with-$T.log | head -6
echo "--- demo without change (expect pass)"
git apply -R SEED/patch.diff && sh SEED/demo/run.sh > /tmp/sv-demo-without-$T.log 2>&1; echo "rc=$?"; grep -E "test result|VIOLAT|violated|FAILED|panicked" /tmp/sv-demo-without-$T.log | head -4
git apply SEED/patch.diff
git status --short | head -5
