#!/usr/bin/env python3
"""Run checks against a scratch copy of /repo with a patch applied (checker self-test; never touches /repo).
usage: tools/mutate.py <patch> <Cxx> [<Cxx> ...]      prints the check output; exit 0 if every listed check fired."""
import os, shutil, subprocess, sys, tempfile

VERIF = os.path.dirname(os.path.dirname(os.path.abspath(__file__)))


def copy_repo(dst, repo="/repo"):
    def ign(d, names):
        return [n for n in names if n in ("target", ".git")]
    shutil.copytree(repo, dst, ignore=ign, symlinks=True)


def run(patch, props, repo="/repo", keep=False, verbose=True):
    tmp = tempfile.mkdtemp(prefix="shv-mut-")
    res = {}
    try:
        dst = os.path.join(tmp, "repo")
        copy_repo(dst, repo)
        r = subprocess.run(["patch", "-p1", "--no-backup-if-mismatch", "-i", os.path.abspath(patch)], cwd=dst, capture_output=True, text=True)
        if r.returncode != 0:
            return None, "patch does not apply:\n" + r.stdout + r.stderr
        ev = os.path.join(tmp, "ev")
        for p in props:
            c = subprocess.run([os.path.join(VERIF, "check"), p, "--repo", dst, "--evidence-dir", ev], capture_output=True, text=True)
            res[p] = (c.returncode, c.stdout + c.stderr)
        return res, ""
    finally:
        if not keep:
            shutil.rmtree(tmp, ignore_errors=True)


if __name__ == "__main__":
    patch = sys.argv[1]; props = sys.argv[2:]
    res, err = run(patch, props)
    if res is None:
        print(err); sys.exit(2)
    allfired = True
    for p, (rc, out) in res.items():
        print("=== %s rc=%d" % (p, rc))
        print(out[-20000:])
        if rc != 1:
            allfired = False
    sys.exit(0 if allfired else 1)
