#!/usr/bin/env python3
"""Mechanical mutation sweep (checker self-test aid, never part of a registered command).

Generates single-token / single-statement mutants of the non-test library source, and for each one
  1. runs all claimed checks on a scratch copy (static; a mutant that does not build shows up as the .E0 rule and is discarded);
  2. if no check fires, runs the repository's test suite on the scratch copy.
Survivors (builds, tests pass, no check fires) are printed for manual triage: each is either an equivalent mutant
or a miss that needs a rule.   usage: tools/sweep.py [--files f,g] [--ops ORD,NEG,...] [--jobs N] [--limit N] [--out file.json]
"""
import argparse, concurrent.futures, json, os, re, shutil, subprocess, sys, tempfile, threading
VERIF = os.path.dirname(os.path.dirname(os.path.abspath(__file__)))
sys.path.insert(0, os.path.join(VERIF, "tools")); sys.path.insert(0, VERIF)
import mutate
from engine.run import PROPS

FILES = [
    "signal-hook-registry/src/lib.rs", "signal-hook-registry/src/half_lock.rs",
    "src/low_level/channel.rs", "src/low_level/pipe.rs", "src/low_level/signal_details.rs", "src/low_level/siginfo.rs",
    "src/low_level/mod.rs", "src/low_level/extract.c", "src/flag.rs",
    "src/iterator/backend.rs", "src/iterator/mod.rs", "src/iterator/exfiltrator/mod.rs", "src/iterator/exfiltrator/raw.rs",
    "src/iterator/exfiltrator/origin.rs",
    "signal-hook-tokio/src/lib.rs", "signal-hook-async-std/src/lib.rs", "signal-hook-mio/src/lib.rs",
]
WEAK = {"SeqCst": "Relaxed", "Acquire": "Relaxed", "Release": "Relaxed", "AcqRel": "Relaxed"}
CMP = [("==", "!="), ("!=", "=="), (" < ", " <= "), (" > ", " >= "), ("<=", "<"), (">=", ">"), ("&&", "||"), ("||", "&&")]


def code_lines(path, text):
    """indices of lines that are library code (not comments, attributes, tests)"""
    out = []
    in_block = False
    for i, l in enumerate(text):
        s = l.strip()
        if path.endswith(".rs") and re.match(r"#\[cfg\(test\)\]", s):
            break
        if in_block:
            if "*/" in s:
                in_block = False
            continue
        if s.startswith("/*"):
            in_block = "*/" not in s
            continue
        if not s or s.startswith("//") or s.startswith("#[") or s.startswith("#!") or s.startswith("use ") or s.startswith("#include"):
            continue
        if s.startswith("* ") or s == "*":
            continue
        out.append(i)
    return out


def strip_comment(l):
    j = l.find("//")
    return l if j < 0 else l[:j]


def gen(path, text, ops):
    ms = []
    for i in code_lines(path, text):
        l = text[i]; c = strip_comment(l); tail = l[len(c):]
        s = c.strip()
        if "ORD" in ops:
            for m in re.finditer(r"Ordering::(SeqCst|Acquire|Release|AcqRel)", c):
                ms.append(("ORD", i, c[:m.start(1)] + WEAK[m.group(1)] + c[m.end(1):] + tail))
        if "NEG" in ops:
            m = re.match(r"^(\s*(?:\} else )?(?:if|while) )(?!let )(.*)( \{\s*)$", c.rstrip("\n"))
            if m and "let " not in m.group(2):
                ms.append(("NEG", i, "%s!(%s)%s\n" % (m.group(1), m.group(2), m.group(3))))
        if "DEL" in ops:
            if s.endswith(";") and not re.match(r"(let |pub |const |static |type |return|break|continue|fn |extern |struct |enum |impl |mod |unsafe impl)", s) \
                    and s.count("(") == s.count(")") and s.count("{") == s.count("}") and not s.startswith("}") and not s.startswith(")") and not s.startswith("."):
                ms.append(("DEL", i, "\n"))
        if "CMP" in ops:
            for a, b in CMP:
                for m in re.finditer(re.escape(a), c):
                    # skip generics / arrows / shifts
                    ctx = c[max(0, m.start() - 1):m.end() + 1]
                    if a.strip() in ("<", ">") and ("->" in ctx or "=>" in ctx or "<<" in ctx or ">>" in ctx):
                        continue
                    if a in ("<=", ">=") and ("=>" in ctx or "<<=" in ctx or ">>=" in ctx):
                        continue
                    if a == "==" and False:
                        continue
                    if a == "||" and re.search(r"\|\|\s*(\{|[a-z_]+\(|unsafe|-?>)", c[m.start():m.start() + 12]) and "if" not in c and "&&" not in c and "==" not in c:
                        continue  # closure `|| expr`
                    ms.append(("CMP", i, c[:m.start()] + b + c[m.end():] + tail))
        if "BOOL" in ops:
            for m in re.finditer(r"\b(true|false)\b", c):
                ms.append(("BOOL", i, c[:m.start()] + ("false" if m.group(1) == "true" else "true") + c[m.end():] + tail))
        if "INT" in ops:
            for m in re.finditer(r"(?<![\w.#])(\d+)(?![\w.])", c):
                if re.search(r"\[[^\]]*;\s*$", c[:m.start()]):
                    pass  # array length: let the compiler decide
                ms.append(("INT", i, c[:m.start()] + str(int(m.group(1)) + 1) + c[m.end():] + tail))
        if "PRED" in ops and path.endswith(".rs"):
            for a, b in ((".all(", ".any("), (".any(", ".all("), (".is_some()", ".is_none()"), (".is_none()", ".is_some()"), (".is_ok()", ".is_err()"), (".is_err()", ".is_ok()"),
                         (".min(", ".max("), (".max(", ".min("), ("fetch_add(", "fetch_sub("), ("fetch_sub(", "fetch_add("), ("wrapping_add(", "wrapping_sub("),
                         (" + 1", " - 1"), (" - 1", " + 1"), ("Ok(", "Err("), ("Some(result)", "None")):
                for m in re.finditer(re.escape(a), c):
                    ms.append(("PRED", i, c[:m.start()] + b + c[m.end():] + tail))
        if "QM" in ops and path.endswith(".rs"):
            # drop error propagation:  `expr?;`  ->  `let _ = expr;`
            m = re.match(r"^(\s*)([^=]*\S)\?;\s*$", c.rstrip("\n"))
            if m and not m.group(2).strip().startswith("let "):
                ms.append(("QM", i, "%slet _ = %s;\n" % (m.group(1), m.group(2))))
    return ms


_tl = threading.local()
_wid = [0]
_lock = threading.Lock()


def worker_target():
    if not hasattr(_tl, "target"):
        with _lock:
            _wid[0] += 1
            _tl.target = os.path.join(BASE, "target-%d" % _wid[0])
    return _tl.target


def run_one(job, with_tests=True):
    path, op, lineno, new = job
    tmp = tempfile.mkdtemp(prefix="shv-sw-", dir=BASE)
    try:
        dst = os.path.join(tmp, "repo")
        mutate.copy_repo(dst)
        fp = os.path.join(dst, path)
        text = open(fp).read().split("\n")
        old = text[lineno]
        text[lineno] = new.rstrip("\n")
        open(fp, "w").write("\n".join(text))
        rec = {"file": path, "op": op, "line": lineno + 1, "old": old.strip(), "new": new.strip()}
        c = subprocess.run([os.path.join(VERIF, "check"), "all", "--repo", dst, "--evidence-dir", os.path.join(tmp, "ev")], capture_output=True, text=True)
        out = c.stdout + c.stderr
        fired = sorted(set(re.findall(r"^\s+\[(C\d\d[.\w]*)\]", out, re.M)))
        rec["fired"] = fired
        if any(f.endswith(".E0") for f in fired):
            rec["status"] = "nobuild"; return rec
        if c.returncode != 0:
            rec["status"] = "detected"; return rec
        if not with_tests:
            rec["status"] = "undetected"; return rec
        env = dict(os.environ, CARGO_TARGET_DIR=worker_target(), CARGO_NET_OFFLINE="true")
        # own process group, killed as a whole on timeout: a mutant that makes a test spin must not leave the test binary behind
        import signal as _sig
        pr = subprocess.Popen(["cargo", "test", "--workspace", "--no-fail-fast", "--offline", "-q"], cwd=dst, stdout=subprocess.PIPE, stderr=subprocess.PIPE, text=True, env=env,
                              start_new_session=True)
        try:
            so, se = pr.communicate(timeout=600)
        except subprocess.TimeoutExpired:
            try:
                os.killpg(pr.pid, _sig.SIGKILL)
            except ProcessLookupError:
                pass
            pr.wait()
            rec["status"] = "tests-timeout"; return rec
        finally:
            try:
                os.killpg(pr.pid, _sig.SIGKILL)
            except (ProcessLookupError, PermissionError):
                pass

        class _T:
            pass
        t = _T(); t.returncode = pr.returncode; t.stdout = so
        if t.returncode != 0:
            rec["status"] = "tests-kill" if "test result" in t.stdout else "nobuild-tests"
        else:
            rec["status"] = "SURVIVOR"
        return rec
    except subprocess.TimeoutExpired:
        rec["status"] = "tests-timeout"; return rec
    finally:
        shutil.rmtree(tmp, ignore_errors=True)


def main():
    global BASE
    ap = argparse.ArgumentParser()
    ap.add_argument("--files"); ap.add_argument("--ops", default="ORD,NEG,DEL,CMP,BOOL,INT,QM"); ap.add_argument("--jobs", type=int, default=6)
    ap.add_argument("--limit", type=int); ap.add_argument("--out", default="/tmp/sweep.json"); ap.add_argument("--no-tests", action="store_true")
    ap.add_argument("--list", action="store_true")
    a = ap.parse_args()
    files = a.files.split(",") if a.files else FILES
    ops = set(a.ops.split(","))
    jobs = []
    for f in files:
        text = open(os.path.join("/repo", f)).read().split("\n")
        text = [l + "\n" for l in text]
        for op, i, new in gen(f, text, ops):
            if new.strip() != text[i].strip():
                jobs.append((f, op, i, new))
    if a.limit:
        jobs = jobs[:a.limit]
    print("%d mutants" % len(jobs), flush=True)
    if a.list:
        for j in jobs:
            print(j[0], j[1], j[2] + 1, j[3].strip())
        return 0
    BASE = tempfile.mkdtemp(prefix="shv-sweep-")
    results = []
    try:
        with concurrent.futures.ThreadPoolExecutor(max_workers=a.jobs) as ex:
            for r in ex.map(lambda j: run_one(j, not a.no_tests), jobs):
                results.append(r)
                if r["status"] in ("SURVIVOR", "undetected", "tests-timeout"):
                    print("%-10s %s:%d %s | %s  ->  %s" % (r["status"], r["file"], r["line"], r["op"], r["old"][:70], r["new"][:70]), flush=True)
                json.dump(results, open(a.out, "w"), indent=1)
    finally:
        shutil.rmtree(BASE, ignore_errors=True)
    from collections import Counter
    print(Counter(r["status"] for r in results))
    return 0


if __name__ == "__main__":
    sys.exit(main())
