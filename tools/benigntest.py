#!/usr/bin/env python3
"""False-alarm test: every behaviour-preserving edit of mutants/benign.py must leave all checks silent.
usage: tools/benigntest.py [--names B01,B02] [--jobs N] [--with-tests]"""
import argparse, concurrent.futures, importlib.util, json, os, re, subprocess, sys, tempfile, shutil
VERIF = os.path.dirname(os.path.dirname(os.path.abspath(__file__)))
sys.path.insert(0, os.path.join(VERIF, "tools")); sys.path.insert(0, VERIF)
import mutate
from engine.run import PROPS


def load():
    spec = importlib.util.spec_from_file_location("benign", os.path.join(VERIF, "mutants", "benign.py"))
    m = importlib.util.module_from_spec(spec); spec.loader.exec_module(m)
    return m.BENIGN


def load_ext():
    """behaviour-preserving refactorings written by independent sub-agents (mutants/benign_ext/*.patch, with a .md note each)"""
    d = os.path.join(VERIF, "mutants", "benign_ext")
    return [{"name": f[:-6], "ext": True} for f in sorted(os.listdir(d)) if f.endswith(".patch")] if os.path.isdir(d) else []


def run_one(b, with_tests=False):
    patch = os.path.join(VERIF, "mutants", "benign_ext" if b.get("ext") else "benign", b["name"] + ".patch")
    res, err = mutate.run(patch, PROPS)
    if res is None:
        return b["name"], "patch-does-not-apply", {}
    fired = {}
    for p in PROPS:
        rc, text = res[p]
        if rc != 0:
            fired[p] = sorted(set("%s %s" % (r, k) for r, k in re.findall(r"^\s+\[(C\d\d[.\w]*)\] (\S+)", text, re.M)))[:6]
    status = "silent" if not fired else "FALSE-ALARM"
    if with_tests:
        tmp = tempfile.mkdtemp(prefix="shv-bt-")
        try:
            dst = os.path.join(tmp, "repo"); mutate.copy_repo(dst)
            subprocess.run(["patch", "-p1", "--no-backup-if-mismatch", "-i", patch], cwd=dst, capture_output=True)
            r = subprocess.run(["cargo", "test", "--workspace", "--no-fail-fast", "--offline"], cwd=dst, capture_output=True, text=True,
                               env=dict(os.environ, CARGO_TARGET_DIR=os.path.join(tmp, "target")))
            ok = r.returncode == 0
            status += " tests:" + ("pass" if ok else "FAIL")
        finally:
            shutil.rmtree(tmp, ignore_errors=True)
    return b["name"], status, fired


def main():
    ap = argparse.ArgumentParser()
    ap.add_argument("--names"); ap.add_argument("--jobs", type=int, default=6); ap.add_argument("--with-tests", action="store_true")
    a = ap.parse_args()
    names = set(a.names.split(",")) if a.names else None
    bs = [b for b in load() + load_ext() if names is None or b["name"] in names]
    bad = 0
    with concurrent.futures.ThreadPoolExecutor(max_workers=a.jobs) as ex:
        for name, status, fired in ex.map(lambda b: run_one(b, a.with_tests), bs):
            print("%-5s %-22s %s" % (name, status, json.dumps(fired) if fired else ""), flush=True)
            bad += status.startswith("FALSE") or status.startswith("patch")
    print("== %d benign edits, %d with alarms" % (len(bs), bad))
    return 1 if bad else 0


if __name__ == "__main__":
    sys.exit(main())
