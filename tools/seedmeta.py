#!/usr/bin/env python3
"""(Re)compute which checks fire on every seeded change and store it in seeded/<id>/meta.json (keeps the hand-written fields)."""
import json, os, re, sys, concurrent.futures
VERIF = os.path.dirname(os.path.dirname(os.path.abspath(__file__)))
sys.path.insert(0, os.path.join(VERIF, "tools")); sys.path.insert(0, VERIF)
import mutate
from engine.run import PROPS

only = set(sys.argv[1:])


def one(d):
    sd = os.path.join(VERIF, "seeded", d)
    patch = os.path.join(sd, "patch.diff")
    res, err = mutate.run(patch, PROPS)
    mp = os.path.join(sd, "meta.json")
    meta = json.load(open(mp)) if os.path.exists(mp) else {}
    if res is None:
        meta["checks"] = {"error": err}
    else:
        det = {}
        for p in PROPS:
            rc, text = res[p]
            if rc != 0:
                det[p] = sorted(set("%s %s" % (r, k) for r, k in re.findall(r"^\s+\[(C\d\d[.\w]*)\] (\S+)", text, re.M)))
        meta["detected_by"] = det
        meta["detected"] = bool(det)
    json.dump(meta, open(mp, "w"), indent=1)
    return d, meta.get("detected_by")


ds = sorted(x for x in os.listdir(os.path.join(VERIF, "seeded")) if os.path.isdir(os.path.join(VERIF, "seeded", x)) and (not only or x in only))
with concurrent.futures.ThreadPoolExecutor(max_workers=10) as ex:
    for d, det in ex.map(one, ds):
        print(d, json.dumps(det)[:400])
