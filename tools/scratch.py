#!/usr/bin/env python3
"""debug aid: apply a patch to a scratch copy of /repo under /tmp/shv-dbg-<name>, extract facts, print the facts dir"""
import os, sys, shutil, subprocess
VERIF = os.path.dirname(os.path.dirname(os.path.abspath(__file__)))
sys.path.insert(0, os.path.join(VERIF, "tools")); sys.path.insert(0, VERIF)
import mutate
from engine import extract
patch = os.path.abspath(sys.argv[1])
name = os.path.basename(patch).replace(".patch", "").replace(".diff", "")
dst = "/tmp/shv-dbg-%s" % name
shutil.rmtree(dst, ignore_errors=True)
mutate.copy_repo(dst + "/repo")
r = subprocess.run(["patch", "-p1", "--no-backup-if-mismatch", "-i", patch], cwd=dst + "/repo", capture_output=True, text=True)
if r.returncode:
    print(r.stdout, r.stderr); sys.exit(2)
d = extract.facts_dir(dst + "/repo")
print(dst + "/repo", d if isinstance(d, str) else d[0])
