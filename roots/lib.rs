//! Harness crate: calls every public, stable entry point of the workspace once, with every
//! exfiltrator, so that the driver's monomorphic walk has concrete instances to follow.
//! Type-checked only; never executed.
#![allow(deprecated, unused_must_use, unused_variables, unused_mut)]

use std::sync::atomic::{AtomicBool, AtomicUsize};
use std::sync::Arc;

use signal_hook::iterator::backend::{PollResult, SignalDelivery, SignalIterator};
use signal_hook::iterator::exfiltrator::{SignalOnly, WithOrigin, WithRawSiginfo};
use signal_hook::iterator::SignalsInfo;
use signal_hook::low_level::channel::Channel;

/// A payload type with a destructor, so that drop paths of the channel are real.
pub struct Payload(pub Box<u32>);

pub fn roots_registry() {
    unsafe {
        let a = signal_hook_registry::register(10, || ()).unwrap();
        let b = signal_hook_registry::register_sigaction(10, |_| ()).unwrap();
        let c = signal_hook_registry::register_signal_unchecked(10, || ()).unwrap();
        let d = signal_hook_registry::register_unchecked(10, |_| ()).unwrap();
        signal_hook_registry::unregister(a);
        signal_hook_registry::unregister(b);
        signal_hook_registry::unregister(c);
        signal_hook_registry::unregister(d);
        signal_hook_registry::unregister_signal(10);
        let _ = signal_hook_registry::FORBIDDEN;
    }
}

pub fn roots_flag() {
    let b = Arc::new(AtomicBool::new(false));
    let u = Arc::new(AtomicUsize::new(0));
    let _ = signal_hook::flag::register(10, b.clone());
    let _ = signal_hook::flag::register_usize(10, u.clone(), 3);
    let _ = signal_hook::flag::register_conditional_shutdown(10, 1, b.clone());
    let _ = signal_hook::flag::register_conditional_default(10, b.clone());
}

pub fn roots_low_level() {
    let _ = signal_hook::low_level::pipe::register_raw(10, 3);
    let (r, w) = std::os::unix::net::UnixStream::pair().unwrap();
    let _ = signal_hook::low_level::pipe::register(10, w);
    let _ = signal_hook::low_level::raise(10);
    let _ = signal_hook::low_level::signal_name(10);
    let _ = signal_hook::low_level::emulate_default_handler(10);
    let id = unsafe { signal_hook::low_level::register(10, || ()) }.unwrap();
    signal_hook::low_level::unregister(id);
    if id == id {
        signal_hook::low_level::exit(1);
    }
    signal_hook::low_level::abort();
}

pub fn roots_siginfo(info: &libc::siginfo_t) {
    let o = unsafe { signal_hook::low_level::siginfo::Origin::extract(info) };
    let _ = format!("{:?}", o);
}

pub fn roots_channel() {
    let c: Channel<Payload> = Channel::new();
    c.send(Payload(Box::new(1)));
    let _ = c.recv();
    let d: Channel<Payload> = Default::default();
    drop(d);
    let c: Channel<libc::siginfo_t> = Channel::new();
    let _ = c.recv();
}

fn iter_roots<E>(mut s: SignalsInfo<E>)
where
    E: signal_hook::iterator::exfiltrator::Exfiltrator,
{
    let _ = s.add_signal(12);
    for _ in s.pending() {}
    for _ in s.wait() {}
    for _ in s.forever() {}
    for _ in &mut s {}
    let _ = s.is_closed();
    let h = s.handle();
    let _ = h.add_signal(12);
    let h2 = h.clone();
    h.close();
    let _ = h2.is_closed();
}

pub fn roots_iterator() {
    iter_roots(SignalsInfo::<SignalOnly>::new(&[10]).unwrap());
    iter_roots(SignalsInfo::<WithRawSiginfo>::new(&[10]).unwrap());
    iter_roots(SignalsInfo::<WithOrigin>::new(&[10]).unwrap());
    iter_roots(SignalsInfo::with_exfiltrator(&[10], SignalOnly).unwrap());
}

fn backend_roots<E>(e: E)
where
    E: signal_hook::iterator::exfiltrator::Exfiltrator,
{
    use std::os::unix::net::UnixStream;
    let (r, w) = UnixStream::pair().unwrap();
    let mut d: SignalDelivery<UnixStream, E> = SignalDelivery::with_pipe(r, w, e, &[10]).unwrap();
    let _ = d.get_read();
    let _ = d.get_read_mut();
    for _ in d.pending() {}
    let mut cb = |_: &mut UnixStream| -> Result<bool, std::io::Error> { Ok(true) };
    if let Ok(Some(p)) = d.poll_pending(&mut cb) {
        for _ in p {}
    }
    let _ = d.handle();
    {
        let mut it = SignalIterator::new(&mut d);
        match it.poll_signal(&mut cb) {
            PollResult::Signal(_) => {}
            PollResult::Pending => {}
            PollResult::Closed => {}
            PollResult::Err(_) => {}
        }
        let _ = it.handle();
    }
    let mut it = SignalIterator::new(d);
    let _ = it.poll_signal(&mut cb);
    let _ = it.handle();
}

pub fn roots_backend() {
    backend_roots(SignalOnly);
    backend_roots(WithRawSiginfo);
    backend_roots(WithOrigin::default());
}

#[cfg(feature = "adapters")]
pub fn roots_adapters(cx: &mut std::task::Context<'_>) {
    {
        use futures_core::Stream;
        fn t<E: signal_hook::iterator::exfiltrator::Exfiltrator + Unpin>(
            mut s: signal_hook_tokio::SignalsInfo<E>,
            cx: &mut std::task::Context<'_>,
        ) where
            E::Output: Unpin,
        {
            let _ = std::pin::Pin::new(&mut s).poll_next(cx);
            let _ = s.handle();
        }
        t(signal_hook_tokio::Signals::new(&[10]).unwrap(), cx);
        t(signal_hook_tokio::SignalsInfo::<WithOrigin>::new(&[10]).unwrap(), cx);
        t(signal_hook_tokio::SignalsInfo::<WithRawSiginfo>::new(&[10]).unwrap(), cx);
    }
    {
        use futures_lite::stream::Stream;
        fn t<E: signal_hook::iterator::exfiltrator::Exfiltrator + Unpin>(
            mut s: signal_hook_async_std::SignalsInfo<E>,
            cx: &mut std::task::Context<'_>,
        ) where
            E::Output: Unpin,
        {
            let _ = std::pin::Pin::new(&mut s).poll_next(cx);
            let _ = s.handle();
        }
        t(signal_hook_async_std::Signals::new(&[10]).unwrap(), cx);
        t(signal_hook_async_std::SignalsInfo::<WithOrigin>::new(&[10]).unwrap(), cx);
        t(signal_hook_async_std::SignalsInfo::<WithRawSiginfo>::new(&[10]).unwrap(), cx);
    }
    {
        let mut m = signal_hook_mio::v1_0::Signals::new(&[10]).unwrap();
        let _ = m.add_signal(12);
        for _ in m.pending() {}
        let mut m = signal_hook_mio::v0_8::SignalsInfo::<WithOrigin>::new(&[10]).unwrap();
        for _ in m.pending() {}
        let mut m = signal_hook_mio::v0_7::SignalsInfo::<WithRawSiginfo>::new(&[10]).unwrap();
        for _ in m.pending() {}
        let mut m = signal_hook_mio::v0_6::Signals::new(&[10]).unwrap();
        for _ in m.pending() {}
    }
}

// ------------------------------------------------------------------------------------------------
// Fixtures: deliberately wrong code that the zero-count rules MUST hit on every run (a rule that
// cannot see its own fixture has gone blind). Type-checked only, never executed, never part of any
// analysed cone of the library.
// ------------------------------------------------------------------------------------------------

pub struct FixtureToken(pub Box<u8>);
impl Clone for FixtureToken {
    fn clone(&self) -> Self {
        FixtureToken(self.0.clone())
    }
}

/// a "handler" that locks, allocates, frees, yields and formats
pub fn roots_fixture_effects(m: &std::sync::Mutex<Vec<u8>>) {
    let mut g = m.lock().unwrap();
    g.push(1);
    let b = Box::new(5u64);
    drop(b);
    std::thread::yield_now();
    eprintln!("fixture {}", g.len());
    std::process::exit(3);
}

/// bitwise duplication / leaking of an owning value
pub fn roots_fixture_escapes(t: FixtureToken) {
    let c = t.clone();
    let d = unsafe { std::ptr::read(&c) };
    std::mem::forget(c);
    let _e = std::mem::ManuallyDrop::new(d);
    drop(t);
}

/// weak orderings and a non-CAS write
pub fn roots_fixture_orderings(a: &std::sync::atomic::AtomicUsize, w: &std::sync::atomic::AtomicU16) -> usize {
    use std::sync::atomic::Ordering;
    a.fetch_add(1, Ordering::Relaxed);
    w.store(3, Ordering::Relaxed);
    a.load(Ordering::Acquire)
}

/// a loop that waits for another thread
pub fn roots_fixture_wait_loop(a: &std::sync::atomic::AtomicUsize) {
    while a.load(std::sync::atomic::Ordering::SeqCst) != 0 {
        std::hint::spin_loop();
    }
}
