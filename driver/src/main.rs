//! shv-driver: rustc_private fact exporter for the signal-hook static-analysis checks.
//!
//! Used as `RUSTC_WRAPPER` under `cargo +nightly check`. For every crate it behaves like rustc.
//! In addition:
//!   * for workspace crates (env VERIF_WS_CRATES, comma separated crate names) it writes
//!     `$VERIF_FACTS_DIR/crate_<name>.json`  (def-level facts: fns, def-level call graph, ADTs,
//!     impls, evaluated consts);
//!   * for the roots crate (env VERIF_ROOTS_CRATE) it performs a monomorphic reachability walk
//!     from every `pub fn roots*` and writes `$VERIF_FACTS_DIR/mono.json` (instances, resolved
//!     call edges incl. RTA-resolved virtual calls, full MIR bodies with instantiated types).
//! Nothing of the analysed code is executed.
#![feature(rustc_private)]
#![allow(clippy::all)]

extern crate rustc_abi;
extern crate rustc_driver;
extern crate rustc_hir;
extern crate rustc_interface;
extern crate rustc_middle;
extern crate rustc_span;

mod json;
use json::J;

use rustc_driver::Compilation;
use rustc_hir::def::DefKind;
use rustc_hir::def_id::{DefId, LOCAL_CRATE};
use rustc_middle::mir::{
    self, AggregateKind, BasicBlock, Body, CastKind, Operand, Place, ProjectionElem, Rvalue,
    StatementKind, TerminatorKind, UnwindAction,
};
use rustc_middle::ty::adjustment::PointerCoercion;
use rustc_middle::ty::print::{with_no_trimmed_paths, with_no_visible_paths, with_resolve_crate_name};
use rustc_middle::ty::{self, EarlyBinder, Instance, InstanceKind, Ty, TyCtxt, TypingEnv};
use rustc_span::Span;
use std::collections::{HashMap, VecDeque};

fn env_list(name: &str) -> Vec<String> {
    std::env::var(name)
        .unwrap_or_default()
        .split(',')
        .filter(|s| !s.is_empty())
        .map(|s| s.to_string())
        .collect()
}

struct Cb;

impl rustc_driver::Callbacks for Cb {
    fn after_analysis<'tcx>(
        &mut self,
        _c: &rustc_interface::interface::Compiler,
        tcx: TyCtxt<'tcx>,
    ) -> Compilation {
        let krate = tcx.crate_name(LOCAL_CRATE).as_str().to_string();
        let out_dir = match std::env::var("VERIF_FACTS_DIR") {
            Ok(d) => d,
            Err(_) => return Compilation::Continue,
        };
        let ws = env_list("VERIF_WS_CRATES");
        let roots = std::env::var("VERIF_ROOTS_CRATE").unwrap_or_default();
        if ws.iter().any(|c| *c == krate) {
            let j = with_resolve_crate_name!(with_no_visible_paths!(with_no_trimmed_paths!(crate_facts(tcx, &krate))));
            let mut s = String::new();
            j.write(&mut s);
            std::fs::write(format!("{}/crate_{}.json", out_dir, krate), s).expect("write facts");
        }
        if krate == roots {
            let j = with_resolve_crate_name!(with_no_visible_paths!(with_no_trimmed_paths!(mono_facts(tcx, &ws, &krate))));
            let mut s = String::new();
            j.write(&mut s);
            std::fs::write(format!("{}/mono.json", out_dir), s).expect("write facts");
        }
        Compilation::Continue
    }
}

fn span_str(tcx: TyCtxt<'_>, sp: Span) -> String {
    // Location of the outermost call site (so macro expansions point into the user's file).
    let sp = sp.source_callsite();
    let sm = tcx.sess.source_map();
    let lo = sm.lookup_char_pos(sp.lo());
    let f = format!("{}", lo.file.name.prefer_local_unconditionally());
    format!("{}:{}:{}", f, lo.line, lo.col.0 + 1)
}

// ------------------------------------------------------------------------------------------------
// Def-level facts of one workspace crate
// ------------------------------------------------------------------------------------------------

fn crate_facts<'tcx>(tcx: TyCtxt<'tcx>, krate: &str) -> J {
    let mut fns = Vec::new();
    let mut adts = Vec::new();
    let mut impls = Vec::new();
    let mut consts = Vec::new();
    let ev = tcx.effective_visibilities(());

    for ldid in tcx.hir_crate_items(()).definitions() {
        let did = ldid.to_def_id();
        let kind = tcx.def_kind(did);
        match kind {
            DefKind::Struct | DefKind::Enum | DefKind::Union => {
                let adt = tcx.adt_def(did);
                let mut variants = Vec::new();
                for (vidx, v) in adt.variants().iter_enumerated() {
                    let discr = if adt.is_enum() {
                        J::Int(adt.discriminant_for_variant(tcx, vidx).val as i128)
                    } else {
                        J::Null
                    };
                    let fields = v
                        .fields
                        .iter()
                        .map(|f| {
                            J::Obj(vec![
                                ("name", J::s(f.name.as_str())),
                                (
                                    "ty",
                                    J::s(format!(
                                        "{}",
                                        tcx.type_of(f.did).instantiate_identity().skip_norm_wip()
                                    )),
                                ),
                                ("pub", J::Bool(f.vis.is_public())),
                            ])
                        })
                        .collect();
                    variants.push(J::Obj(vec![
                        ("name", J::s(v.name.as_str())),
                        ("discr", discr),
                        ("fields", J::Arr(fields)),
                    ]));
                }
                adts.push(J::Obj(vec![
                    ("path", J::s(tcx.def_path_str(did))),
                    ("kind", J::s(format!("{:?}", kind))),
                    ("repr", J::s(format!("{:?}", adt.repr().int))),
                    ("pub", J::Bool(ev.is_reachable(ldid))),
                    ("variants", J::Arr(variants)),
                    ("span", J::s(span_str(tcx, tcx.def_span(did)))),
                ]));
            }
            DefKind::Impl { .. } => {
                let self_ty = tcx.type_of(did).instantiate_identity().skip_norm_wip();
                let (tr, trait_args) = match tcx.impl_opt_trait_ref(did) {
                    Some(tr) => {
                        let tr = tr.instantiate_identity().skip_norm_wip();
                        (tcx.def_path_str(tr.def_id), format!("{}", tr))
                    }
                    None => (String::new(), String::new()),
                };
                let preds: Vec<J> = tcx
                    .predicates_of(did)
                    .predicates
                    .iter()
                    .map(|(p, _)| J::s(format!("{}", p)))
                    .collect();
                let (is_unsafe, negative) = if tcx.impl_opt_trait_ref(did).is_some() {
                    let h = tcx.impl_trait_header(did);
                    (
                        format!("{:?}", h.safety).contains("Unsafe"),
                        format!("{:?}", h.polarity).contains("Negative"),
                    )
                } else {
                    (false, false)
                };
                let items: Vec<J> = tcx
                    .associated_item_def_ids(did)
                    .iter()
                    .map(|d| J::s(tcx.def_path_str(*d)))
                    .collect();
                impls.push(J::Obj(vec![
                    ("trait", J::s(tr)),
                    ("trait_ref", J::s(trait_args)),
                    ("self", J::s(format!("{}", self_ty))),
                    ("unsafe", J::Bool(is_unsafe)),
                    ("negative", J::Bool(negative)),
                    ("preds", J::Arr(preds)),
                    ("items", J::Arr(items)),
                    ("span", J::s(span_str(tcx, tcx.def_span(did)))),
                ]));
            }
            DefKind::Const { .. } | DefKind::Static { .. } | DefKind::AssocConst { .. } => {
                let generics = tcx.generics_of(did);
                if generics.count() != 0 {
                    continue;
                }
                let ty = tcx.type_of(did).instantiate_identity().skip_norm_wip();
                let val = if matches!(kind, DefKind::Static { .. }) {
                    J::Null
                } else {
                    const_item_json(tcx, did)
                };
                consts.push(J::Obj(vec![
                    ("path", J::s(tcx.def_path_str(did))),
                    ("ty", J::s(format!("{}", ty))),
                    ("kind", J::s(format!("{:?}", kind))),
                    ("pub", J::Bool(ev.is_reachable(ldid))),
                    ("val", val),
                ]));
            }
            _ => {}
        }
    }

    // functions and closures with bodies
    for ldid in tcx.mir_keys(()) {
        let did = ldid.to_def_id();
        let kind = tcx.def_kind(did);
        if !matches!(kind, DefKind::Fn | DefKind::AssocFn | DefKind::Closure) {
            continue;
        }
        let body = tcx.optimized_mir(did);
        let mut callees: Vec<J> = Vec::new();
        let mut closures: Vec<J> = Vec::new();
        let mut reified: Vec<J> = Vec::new();
        for data in body.basic_blocks.iter() {
            for st in &data.statements {
                if let StatementKind::Assign(b) = &st.kind {
                    match &b.1 {
                        Rvalue::Aggregate(k, _) => {
                            if let AggregateKind::Closure(d, _) = **k {
                                closures.push(J::s(tcx.def_path_str(d)));
                            }
                        }
                        Rvalue::Cast(CastKind::PointerCoercion(pc, _), op, _) => {
                            if matches!(pc, PointerCoercion::ReifyFnPointer(_)) {
                                if let ty::FnDef(d, _) = op.ty(&body.local_decls, tcx).kind() {
                                    reified.push(J::s(tcx.def_path_str(*d)));
                                }
                            }
                        }
                        _ => {}
                    }
                }
            }
            // function items mentioned as values (passed as arguments)
            let Some(term) = &data.terminator else { continue };
            if let TerminatorKind::Call { func, args, .. } = &term.kind {
                let fty = func.ty(&body.local_decls, tcx);
                if let ty::FnDef(d, a) = fty.kind() {
                    let mut self_ty = String::new();
                    if let Some(tr) = tcx.trait_of_assoc(*d) {
                        let _ = tr;
                        if a.len() > 0 {
                            if let Some(t) = a[0].as_type() {
                                self_ty = format!("{}", t);
                            }
                        }
                    }
                    callees.push(J::Obj(vec![
                        ("def", J::s(tcx.def_path_str(*d))),
                        ("trait_method", J::Bool(tcx.trait_of_assoc(*d).is_some())),
                        ("self", J::s(self_ty)),
                        ("span", J::s(span_str(tcx, term.source_info.span))),
                    ]));
                } else {
                    callees.push(J::Obj(vec![
                        ("def", J::s("<indirect>")),
                        ("trait_method", J::Bool(false)),
                        ("self", J::s(format!("{}", fty))),
                        ("span", J::s(span_str(tcx, term.source_info.span))),
                    ]));
                }
                for a in args.iter() {
                    if let ty::FnDef(d, _) = a.node.ty(&body.local_decls, tcx).kind() {
                        reified.push(J::s(tcx.def_path_str(*d)));
                    }
                }
            }
        }
        let parent = if kind == DefKind::Closure {
            J::s(tcx.def_path_str(tcx.typeck_root_def_id(did)))
        } else {
            J::Null
        };
        let is_pub = kind != DefKind::Closure && ev.is_reachable(*ldid);
        let sig_unsafe = if kind != DefKind::Closure {
            format!("{:?}", tcx.fn_sig(did).skip_binder().safety()).contains("Unsafe")
        } else {
            false
        };
        let impl_of = tcx
            .impl_of_assoc(did)
            .and_then(|i| tcx.impl_opt_trait_ref(i))
            .map(|tr| J::s(tcx.def_path_str(tr.skip_binder().def_id)))
            .unwrap_or(J::Null);
        fns.push(J::Obj(vec![
            ("path", J::s(tcx.def_path_str(did))),
            ("kind", J::s(format!("{:?}", kind))),
            ("pub", J::Bool(is_pub)),
            ("unsafe", J::Bool(sig_unsafe)),
            ("parent", parent),
            ("trait_impl", impl_of),
            ("callees", J::Arr(callees)),
            ("closures", J::Arr(closures)),
            ("fn_values", J::Arr(reified)),
            ("span", J::s(span_str(tcx, tcx.def_span(did)))),
        ]));
    }

    J::Obj(vec![
        ("crate", J::s(krate)),
        ("fns", J::Arr(fns)),
        ("adts", J::Arr(adts)),
        ("impls", J::Arr(impls)),
        ("consts", J::Arr(consts)),
    ])
}

fn const_item_json<'tcx>(tcx: TyCtxt<'tcx>, did: DefId) -> J {
    let args = ty::GenericArgs::identity_for_item(tcx, did);
    let instance = Instance::new_raw(did, args);
    let cid = mir::interpret::GlobalId { instance, promoted: None };
    let env = TypingEnv::post_analysis(tcx, did);
    match tcx.const_eval_global_id_for_typeck(env, cid, rustc_span::DUMMY_SP) {
        Ok(Ok(vt)) => {
            let ty = tcx.type_of(did).instantiate_identity().skip_norm_wip();
            valtree_json(tcx, ty::Value { ty, valtree: vt }, 0)
        }
        _ => J::Null,
    }
}

fn valtree_json<'tcx>(tcx: TyCtxt<'tcx>, v: ty::Value<'tcx>, depth: usize) -> J {
    if depth > 12 {
        return J::Null;
    }
    let mut ty = v.ty;
    while let ty::Ref(_, inner, _) = ty.kind() {
        ty = *inner;
    }
    if let Some(leaf) = v.try_to_leaf() {
        let size = leaf.size();
        return match ty.kind() {
            ty::Int(_) => J::Int(leaf.to_int(size)),
            _ => J::Int(leaf.to_uint(size) as i128),
        };
    }
    let Some(children) = v.try_to_branch() else { return J::Null };
    let child_val = |c: &ty::Const<'tcx>| -> Option<ty::Value<'tcx>> {
        match c.kind() {
            ty::ConstKind::Value(val) => Some(val),
            _ => None,
        }
    };
    match ty.kind() {
        ty::Str => {
            let bytes: Vec<u8> = children
                .iter()
                .filter_map(|c| child_val(c).and_then(|v| v.try_to_leaf()).map(|l| l.to_u8()))
                .collect();
            J::s(String::from_utf8_lossy(&bytes).to_string())
        }
        ty::Adt(def, _) if def.is_enum() => {
            let vidx = children
                .get(0)
                .and_then(|c| child_val(c))
                .and_then(|v| v.try_to_leaf())
                .map(|l| l.to_u32())
                .unwrap_or(0);
            let variant = def.variant(rustc_abi::VariantIdx::from_u32(vidx));
            let fields: Vec<J> = children[1..]
                .iter()
                .map(|c| child_val(c).map(|v| valtree_json(tcx, v, depth + 1)).unwrap_or(J::Null))
                .collect();
            J::Obj(vec![("variant", J::s(variant.name.as_str())), ("fields", J::Arr(fields))])
        }
        ty::Adt(def, _) if def.is_struct() => {
            let names: Vec<String> =
                def.non_enum_variant().fields.iter().map(|f| f.name.as_str().to_string()).collect();
            let mut arr = Vec::new();
            for (i, c) in children.iter().enumerate() {
                let val = child_val(c).map(|v| valtree_json(tcx, v, depth + 1)).unwrap_or(J::Null);
                arr.push(J::Arr(vec![J::s(names.get(i).cloned().unwrap_or_default()), val]));
            }
            J::Obj(vec![("struct", J::s(tcx.def_path_str(def.did()))), ("fields", J::Arr(arr))])
        }
        _ => J::Arr(
            children
                .iter()
                .map(|c| child_val(c).map(|v| valtree_json(tcx, v, depth + 1)).unwrap_or(J::Null))
                .collect(),
        ),
    }
}

// ------------------------------------------------------------------------------------------------
// Monomorphic walk
// ------------------------------------------------------------------------------------------------

struct Walk<'tcx> {
    tcx: TyCtxt<'tcx>,
    env: TypingEnv<'tcx>,
    ids: HashMap<Instance<'tcx>, usize>,
    order: Vec<Instance<'tcx>>,
    queue: VecDeque<usize>,
    /// (exact dyn type, implementor type)
    impls: Vec<(Ty<'tcx>, Ty<'tcx>)>,
    unsize: Vec<J>,
    virtuals: Vec<usize>,
    bodies: HashMap<usize, J>,
    ws: Vec<String>,
    unresolved: Vec<J>,
}

impl<'tcx> Walk<'tcx> {
    fn intern(&mut self, i: Instance<'tcx>) -> usize {
        if let Some(id) = self.ids.get(&i) {
            return *id;
        }
        let id = self.order.len();
        self.ids.insert(i, id);
        self.order.push(i);
        self.queue.push_back(id);
        id
    }

    fn mono<T: ty::TypeFoldable<TyCtxt<'tcx>>>(&self, inst: Instance<'tcx>, v: T) -> T {
        inst.instantiate_mir_and_normalize_erasing_regions(self.tcx, self.env, EarlyBinder::bind(v))
    }

    fn has_mir(&self, inst: Instance<'tcx>) -> bool {
        match inst.def {
            InstanceKind::Item(d) => self.tcx.is_mir_available(d) && !self.tcx.is_foreign_item(d),
            InstanceKind::Intrinsic(_) | InstanceKind::Virtual(..) => false,
            _ => true,
        }
    }

    fn place_json(&self, inst: Instance<'tcx>, body: &Body<'tcx>, p: &Place<'tcx>) -> J {
        let tcx = self.tcx;
        let mut proj = Vec::new();
        for (base, elem) in p.iter_projections() {
            match elem {
                ProjectionElem::Deref => proj.push(J::Obj(vec![("k", J::s("deref"))])),
                ProjectionElem::Field(f, fty) => {
                    let bty = base.ty(&body.local_decls, tcx);
                    let bt = self.mono(inst, bty.ty);
                    let mut name = format!("{}", f.as_usize());
                    if let ty::Adt(def, _) = bt.kind() {
                        let v = bty.variant_index.unwrap_or(rustc_abi::FIRST_VARIANT);
                        if def.is_enum() || def.is_struct() || def.is_union() {
                            if let Some(fd) = def.variant(v).fields.get(f) {
                                name = fd.name.as_str().to_string();
                            }
                        }
                    }
                    proj.push(J::Obj(vec![
                        ("k", J::s("field")),
                        ("i", J::Int(f.as_usize() as i128)),
                        ("n", J::s(name)),
                        ("t", J::s(format!("{}", self.mono(inst, fty)))),
                        ("bt", J::s(format!("{}", bt))),
                    ]));
                }
                ProjectionElem::Index(l) => {
                    proj.push(J::Obj(vec![("k", J::s("index")), ("l", J::Int(l.as_usize() as i128))]))
                }
                ProjectionElem::ConstantIndex { offset, from_end, .. } => proj.push(J::Obj(vec![
                    ("k", J::s("cindex")),
                    ("i", J::Int(offset as i128)),
                    ("from_end", J::Bool(from_end)),
                ])),
                ProjectionElem::Subslice { from, to, from_end } => proj.push(J::Obj(vec![
                    ("k", J::s("subslice")),
                    ("from", J::Int(from as i128)),
                    ("to", J::Int(to as i128)),
                    ("from_end", J::Bool(from_end)),
                ])),
                ProjectionElem::Downcast(name, v) => proj.push(J::Obj(vec![
                    ("k", J::s("downcast")),
                    ("v", J::s(name.map(|s| s.as_str().to_string()).unwrap_or_default())),
                    ("vi", J::Int(v.as_usize() as i128)),
                ])),
                _ => proj.push(J::Obj(vec![("k", J::s("other"))])),
            }
        }
        J::Obj(vec![("l", J::Int(p.local.as_usize() as i128)), ("p", J::Arr(proj))])
    }

    fn const_json(&mut self, inst: Instance<'tcx>, c: &mir::ConstOperand<'tcx>) -> J {
        let tcx = self.tcx;
        let orig = c.const_;
        let cst = self.mono(inst, orig);
        let ty = cst.ty();
        let mut o = vec![("ty", J::s(format!("{}", ty)))];
        match ty.kind() {
            ty::FnDef(d, a) => {
                o.push(("def", J::s(tcx.def_path_str(*d))));
                if let Ok(Some(i)) = Instance::try_resolve(tcx, self.env, *d, a) {
                    let id = self.intern(i);
                    o.push(("fn", J::Int(id as i128)));
                }
            }
            ty::Closure(d, _) => {
                o.push(("def", J::s(tcx.def_path_str(*d))));
            }
            _ => {
                if let mir::Const::Unevaluated(uv, _) = orig {
                    o.push(("def", J::s(tcx.def_path_str(uv.def))));
                    if uv.promoted.is_some() {
                        o.push(("promoted", J::Bool(true)));
                    }
                }
                if ty.is_integral() || ty.is_bool() || ty.is_char() || ty.is_raw_ptr() {
                    if let Some(s) = cst.try_eval_scalar_int(tcx, self.env) {
                        let size = s.size();
                        let v = if matches!(ty.kind(), ty::Int(_)) {
                            s.to_int(size)
                        } else {
                            s.to_uint(size) as i128
                        };
                        o.push(("val", J::Int(v)));
                    }
                } else if let ty::Adt(def, _) = ty.kind() {
                    // fieldless enum constants (Ordering::SeqCst written as a path constant)
                    if def.is_enum() {
                        if let Some(s) = cst.try_eval_scalar_int(tcx, self.env) {
                            let bits = s.to_uint(s.size());
                            for (vidx, v) in def.variants().iter_enumerated() {
                                if def.discriminant_for_variant(tcx, vidx).val == bits {
                                    o.push(("variant", J::s(v.name.as_str())));
                                }
                            }
                        }
                    }
                }
                o.push(("repr", J::s(format!("{}", cst))));
            }
        }
        J::Obj(vec![("k", J::s("const")), ("c", J::Obj(o))])
    }

    fn op_json(&mut self, inst: Instance<'tcx>, body: &Body<'tcx>, op: &Operand<'tcx>) -> J {
        match op {
            Operand::Copy(p) => J::Obj(vec![("k", J::s("copy")), ("p", self.place_json(inst, body, p))]),
            Operand::Move(p) => J::Obj(vec![("k", J::s("move")), ("p", self.place_json(inst, body, p))]),
            Operand::Constant(c) => self.const_json(inst, c),
            _ => J::Obj(vec![("k", J::s("runtime_checks"))]),
        }
    }

    fn peel(&self, src: Ty<'tcx>, dst: Ty<'tcx>) -> Option<(Ty<'tcx>, Ty<'tcx>)> {
        match (src.kind(), dst.kind()) {
            (ty::Ref(_, a, _), ty::Ref(_, b, _))
            | (ty::RawPtr(a, _), ty::RawPtr(b, _))
            | (ty::Ref(_, a, _), ty::RawPtr(b, _)) => Some((*a, *b)),
            (ty::Adt(d1, a1), ty::Adt(d2, a2)) if d1 == d2 => {
                // Box<T>, Arc<T>, Rc<T>, Pin<P>, NonNull<T> ...: first type argument that differs
                for (x, y) in a1.types().zip(a2.types()) {
                    if x != y {
                        if let Some(r) = self.peel(x, y) {
                            return Some(r);
                        }
                        return Some((x, y));
                    }
                }
                None
            }
            _ => None,
        }
    }

    fn rvalue_json(
        &mut self,
        inst: Instance<'tcx>,
        body: &Body<'tcx>,
        rv: &Rvalue<'tcx>,
        me: usize,
        bb: usize,
        span: Span,
    ) -> J {
        let tcx = self.tcx;
        match rv {
            Rvalue::Use(op, ..) => J::Obj(vec![("k", J::s("use")), ("o", self.op_json(inst, body, op))]),
            Rvalue::Repeat(op, n) => {
                let n = self.mono(inst, *n);
                J::Obj(vec![
                    ("k", J::s("repeat")),
                    ("o", self.op_json(inst, body, op)),
                    ("n", J::s(format!("{}", n))),
                ])
            }
            Rvalue::Ref(_, bk, p) => J::Obj(vec![
                ("k", J::s("ref")),
                ("m", J::s(if matches!(bk, mir::BorrowKind::Mut { .. }) { "mut" } else { "shared" })),
                ("p", self.place_json(inst, body, p)),
            ]),
            Rvalue::RawPtr(kind, p) => J::Obj(vec![
                ("k", J::s("rawptr")),
                ("m", J::s(format!("{:?}", kind))),
                ("p", self.place_json(inst, body, p)),
            ]),
            Rvalue::ThreadLocalRef(d) => {
                J::Obj(vec![("k", J::s("tls")), ("def", J::s(tcx.def_path_str(*d)))])
            }
            Rvalue::Cast(kind, op, ty) => {
                let dst = self.mono(inst, *ty);
                let src = self.mono(inst, op.ty(&body.local_decls, tcx));
                let mut o = vec![
                    ("k", J::s("cast")),
                    ("o", self.op_json(inst, body, op)),
                    ("from", J::s(format!("{}", src))),
                    ("to", J::s(format!("{}", dst))),
                ];
                let ck = match kind {
                    CastKind::PointerCoercion(pc, _) => match pc {
                        PointerCoercion::Unsize => {
                            if let Some((a, b)) = self.peel(src, dst) {
                                let (a, b) = tcx.struct_lockstep_tails_for_codegen(a, b, self.env);
                                if let ty::Dynamic(..) = b.kind() {
                                    if !matches!(a.kind(), ty::Dynamic(..)) {
                                        if !self.impls.contains(&(b, a)) {
                                            self.impls.push((b, a));
                                        }
                                        let mut upvars = Vec::new();
                                        let mut cdef = J::Null;
                                        if let ty::Closure(d, ca) = a.kind() {
                                            cdef = J::s(tcx.def_path_str(*d));
                                            for u in ca.as_closure().upvar_tys() {
                                                upvars.push(J::s(format!("{}", u)));
                                            }
                                        }
                                        self.unsize.push(J::Obj(vec![
                                            ("from", J::s(format!("{}", a))),
                                            ("to", J::s(format!("{}", b))),
                                            ("closure", cdef),
                                            ("upvars", J::Arr(upvars)),
                                            ("in", J::Int(me as i128)),
                                            ("bb", J::Int(bb as i128)),
                                            ("span", J::s(span_str(tcx, span))),
                                        ]));
                                        o.push(("unsize_from", J::s(format!("{}", a))));
                                        o.push(("unsize_to", J::s(format!("{}", b))));
                                        // making a vtable for a closure makes its body reachable even when the virtual call sits in a
                                        // std function without MIR (`Once::call_once` -> `Once::call(&mut dyn FnMut)`): intern the body
                                        // (not an edge: cones do not follow it; the instance and what it calls are in the fact base)
                                        if let ty::Closure(d, ca) = a.kind() {
                                            let k = ca.as_closure().kind();
                                            let i = Instance::resolve_closure(tcx, *d, ca, k);
                                            let id = self.intern(i);
                                            o.push(("vtable_fn", J::Int(id as i128)));
                                        }
                                    }
                                }
                            }
                            "unsize".to_string()
                        }
                        PointerCoercion::ReifyFnPointer(_) => {
                            if let ty::FnDef(d, a) = src.kind() {
                                if let Ok(Some(i)) = Instance::try_resolve(tcx, self.env, *d, a) {
                                    let id = self.intern(i);
                                    o.push(("fn", J::Int(id as i128)));
                                }
                            }
                            "reify".to_string()
                        }
                        PointerCoercion::ClosureFnPointer(_) => {
                            if let ty::Closure(d, a) = src.kind() {
                                let i = Instance::resolve_closure(tcx, *d, a, ty::ClosureKind::FnOnce);
                                let id = self.intern(i);
                                o.push(("fn", J::Int(id as i128)));
                            }
                            "closure_fnptr".to_string()
                        }
                        other => format!("{:?}", other),
                    },
                    other => format!("{:?}", other),
                };
                o.push(("ck", J::s(ck)));
                J::Obj(o)
            }
            Rvalue::BinaryOp(op, b) => J::Obj(vec![
                ("k", J::s("binop")),
                ("op", J::s(format!("{:?}", op))),
                ("a", self.op_json(inst, body, &b.0)),
                ("b", self.op_json(inst, body, &b.1)),
            ]),
            Rvalue::UnaryOp(op, a) => J::Obj(vec![
                ("k", J::s("unop")),
                ("op", J::s(format!("{:?}", op))),
                ("a", self.op_json(inst, body, a)),
            ]),
            Rvalue::Discriminant(p) => {
                J::Obj(vec![("k", J::s("discr")), ("p", self.place_json(inst, body, p))])
            }
            Rvalue::Aggregate(kind, ops) => {
                let mut o = vec![("k", J::s("aggregate"))];
                match &**kind {
                    AggregateKind::Array(t) => {
                        o.push(("ak", J::s("array")));
                        o.push(("ty", J::s(format!("{}", self.mono(inst, *t)))));
                    }
                    AggregateKind::Tuple => o.push(("ak", J::s("tuple"))),
                    AggregateKind::Adt(d, v, args, _, _) => {
                        let def = tcx.adt_def(*d);
                        o.push(("ak", J::s("adt")));
                        o.push(("def", J::s(tcx.def_path_str(*d))));
                        o.push(("variant", J::s(def.variant(*v).name.as_str())));
                        o.push(("vi", J::Int(v.as_usize() as i128)));
                        let a = self.mono(inst, *args);
                        o.push(("args", J::Arr(a.iter().map(|x| J::s(format!("{}", x))).collect())));
                        let names: Vec<J> =
                            def.variant(*v).fields.iter().map(|f| J::s(f.name.as_str())).collect();
                        o.push(("fields", J::Arr(names)));
                    }
                    AggregateKind::Closure(d, args) => {
                        o.push(("ak", J::s("closure")));
                        o.push(("def", J::s(tcx.def_path_str(*d))));
                        let a = self.mono(inst, *args);
                        o.push(("ty", J::s(format!("{}", Ty::new_closure(tcx, *d, a)))));
                    }
                    AggregateKind::RawPtr(t, _) => {
                        o.push(("ak", J::s("rawptr")));
                        o.push(("ty", J::s(format!("{}", self.mono(inst, *t)))));
                    }
                    _ => o.push(("ak", J::s("other"))),
                }
                let ops: Vec<J> = ops.iter().map(|x| self.op_json(inst, body, x)).collect();
                o.push(("ops", J::Arr(ops)));
                J::Obj(o)
            }
            Rvalue::CopyForDeref(p) => J::Obj(vec![
                ("k", J::s("use")),
                ("o", J::Obj(vec![("k", J::s("copy")), ("p", self.place_json(inst, body, p))])),
            ]),
            _ => J::Obj(vec![("k", J::s("other")), ("repr", J::s(format!("{:?}", rv)))]),
        }
    }

    fn unwind_json(&self, u: &UnwindAction) -> J {
        match u {
            UnwindAction::Continue => J::s("continue"),
            UnwindAction::Unreachable => J::s("unreachable"),
            UnwindAction::Terminate(_) => J::s("terminate"),
            UnwindAction::Cleanup(bb) => J::Int(bb.as_usize() as i128),
        }
    }

    fn body_json(&mut self, me: usize, inst: Instance<'tcx>) -> J {
        let tcx = self.tcx;
        let body: &Body<'tcx> = tcx.instance_mir(inst.def);
        let mut locals = Vec::new();
        for d in body.local_decls.iter() {
            locals.push(J::s(format!("{}", self.mono(inst, d.ty))));
        }
        let mut names: Vec<J> = Vec::new();
        for vdi in &body.var_debug_info {
            if let mir::VarDebugInfoContents::Place(p) = &vdi.value {
                names.push(J::Arr(vec![J::s(vdi.name.as_str()), self.place_json(inst, body, p)]));
            }
        }
        let mut blocks = Vec::new();
        for (bb, data) in body.basic_blocks.iter_enumerated() {
            let bbi = bb.as_usize();
            let mut stmts = Vec::new();
            for st in &data.statements {
                match &st.kind {
                    StatementKind::Assign(b) => {
                        let l = self.place_json(inst, body, &b.0);
                        let r = self.rvalue_json(inst, body, &b.1, me, bbi, st.source_info.span);
                        stmts.push(J::Obj(vec![
                            ("k", J::s("assign")),
                            ("l", l),
                            ("r", r),
                            ("sp", J::s(span_str(tcx, st.source_info.span))),
                            ("exp", J::Bool(st.source_info.span.from_expansion())),
                        ]));
                    }
                    StatementKind::SetDiscriminant { place, variant_index } => {
                        stmts.push(J::Obj(vec![
                            ("k", J::s("setdiscr")),
                            ("l", self.place_json(inst, body, place)),
                            ("vi", J::Int(variant_index.as_usize() as i128)),
                        ]));
                    }
                    StatementKind::Intrinsic(i) => {
                        stmts.push(J::Obj(vec![
                            ("k", J::s("intrinsic")),
                            ("repr", J::s(format!("{:?}", i))),
                        ]));
                    }
                    _ => {}
                }
            }
            let term = data.terminator();
            let sp = term.source_info.span;
            let mut t: Vec<(&'static str, J)> = Vec::new();
            match &term.kind {
                TerminatorKind::Goto { target } => {
                    t.push(("k", J::s("goto")));
                    t.push(("ret", J::Int(target.as_usize() as i128)));
                }
                TerminatorKind::SwitchInt { discr, targets } => {
                    t.push(("k", J::s("switch")));
                    t.push(("d", self.op_json(inst, body, discr)));
                    let dty = self.mono(inst, discr.ty(&body.local_decls, tcx));
                    t.push(("dty", J::s(format!("{}", dty))));
                    let vals: Vec<J> = targets
                        .iter()
                        .map(|(v, bb)| J::Arr(vec![J::Int(v as i128), J::Int(bb.as_usize() as i128)]))
                        .collect();
                    t.push(("vals", J::Arr(vals)));
                    t.push(("else", J::Int(targets.otherwise().as_usize() as i128)));
                }
                TerminatorKind::UnwindResume => t.push(("k", J::s("resume"))),
                TerminatorKind::UnwindTerminate(_) => t.push(("k", J::s("terminate"))),
                TerminatorKind::Return => t.push(("k", J::s("return"))),
                TerminatorKind::Unreachable => t.push(("k", J::s("unreachable"))),
                TerminatorKind::Drop { place, target, unwind, .. } => {
                    let pty = self.mono(inst, place.ty(&body.local_decls, tcx).ty);
                    let glue = Instance::resolve_drop_in_place(tcx, pty);
                    // drop glue of types without drop glue is an empty shim; keep the edge anyway
                    let gid = self.intern(glue);
                    t.push(("k", J::s("drop")));
                    t.push(("p", self.place_json(inst, body, place)));
                    t.push(("ty", J::s(format!("{}", pty))));
                    t.push(("needs_drop", J::Bool(pty.needs_drop(tcx, self.env))));
                    t.push(("f", J::Int(gid as i128)));
                    t.push(("ret", J::Int(target.as_usize() as i128)));
                    t.push(("unw", self.unwind_json(unwind)));
                }
                TerminatorKind::Call { func, args, .. }
                | TerminatorKind::TailCall { func, args, .. } => {
                    let (destination, target, unwind) = match &term.kind {
                        TerminatorKind::Call { destination, target, unwind, .. } => {
                            (Some(destination), *target, Some(unwind))
                        }
                        _ => (None, None::<BasicBlock>, None),
                    };
                    let _ = (destination, target, unwind);
                    t.push(("k", J::s("call")));
                    let fty = self.mono(inst, func.ty(&body.local_decls, tcx));
                    match fty.kind() {
                        ty::FnDef(d, a) => {
                            t.push(("def", J::s(tcx.def_path_str(*d))));
                            t.push((
                                "targs",
                                J::Arr(a.iter().map(|x| J::s(format!("{}", x))).collect()),
                            ));
                            match Instance::try_resolve(tcx, self.env, *d, a) {
                                Ok(Some(i)) => {
                                    let id = self.intern(i);
                                    t.push(("f", J::Int(id as i128)));
                                }
                                _ => {
                                    t.push(("f", J::Null));
                                    self.unresolved.push(J::Obj(vec![
                                        ("in", J::Int(me as i128)),
                                        ("def", J::s(tcx.def_path_str(*d))),
                                        ("span", J::s(span_str(tcx, sp))),
                                    ]));
                                }
                            }
                        }
                        _ => {
                            t.push(("f", J::Null));
                            t.push(("indirect", J::Bool(true)));
                            t.push(("fop", self.op_json(inst, body, func)));
                            t.push(("fty", J::s(format!("{}", fty))));
                        }
                    }
                    let a: Vec<J> = args.iter().map(|x| self.op_json(inst, body, &x.node)).collect();
                    t.push(("args", J::Arr(a)));
                    if let Some(d) = destination {
                        t.push(("dest", self.place_json(inst, body, d)));
                    }
                    t.push((
                        "ret",
                        target.map(|b| J::Int(b.as_usize() as i128)).unwrap_or(J::Null),
                    ));
                    if let Some(u) = unwind {
                        t.push(("unw", self.unwind_json(u)));
                    }
                }
                TerminatorKind::Assert { cond, expected, msg, target, unwind } => {
                    t.push(("k", J::s("assert")));
                    t.push(("cond", self.op_json(inst, body, cond)));
                    t.push(("expected", J::Bool(*expected)));
                    let m = format!("{:?}", msg);
                    let kind = m.split(|c: char| !c.is_alphanumeric()).next().unwrap_or("").to_string();
                    t.push(("msg", J::s(kind)));
                    t.push(("ret", J::Int(target.as_usize() as i128)));
                    t.push(("unw", self.unwind_json(unwind)));
                }
                TerminatorKind::InlineAsm { targets, unwind, .. } => {
                    t.push(("k", J::s("asm")));
                    t.push((
                        "targets",
                        J::Arr(targets.iter().map(|b| J::Int(b.as_usize() as i128)).collect()),
                    ));
                    t.push(("unw", self.unwind_json(unwind)));
                }
                other => {
                    t.push(("k", J::s("other")));
                    t.push(("repr", J::s(format!("{:?}", other))));
                }
            }
            t.push(("sp", J::s(span_str(tcx, sp))));
            t.push(("exp", J::Bool(sp.from_expansion())));
            blocks.push(J::Obj(vec![
                ("s", J::Arr(stmts)),
                ("t", J::Obj(t)),
                ("cleanup", J::Bool(data.is_cleanup)),
            ]));
        }
        J::Obj(vec![
            ("argc", J::Int(body.arg_count as i128)),
            ("locals", J::Arr(locals)),
            ("names", J::Arr(names)),
            ("blocks", J::Arr(blocks)),
        ])
    }

    fn run(&mut self) {
        loop {
            while let Some(id) = self.queue.pop_front() {
                let inst = self.order[id];
                if let InstanceKind::Virtual(..) = inst.def {
                    self.virtuals.push(id);
                    continue;
                }
                if !self.has_mir(inst) {
                    continue;
                }
                let b = self.body_json(id, inst);
                self.bodies.insert(id, b);
            }
            // RTA: resolve virtual calls against recorded implementors, to a fixpoint.
            let before = self.order.len();
            let virtuals = self.virtuals.clone();
            for v in virtuals {
                let _ = self.virtual_targets(v);
            }
            if self.order.len() == before && self.queue.is_empty() {
                break;
            }
        }
    }

    fn virtual_targets(&mut self, vid: usize) -> Vec<(usize, String)> {
        let inst = self.order[vid];
        let InstanceKind::Virtual(mdid, _) = inst.def else { return vec![] };
        let tr = inst.args.type_at(0);
        let mut out = Vec::new();
        let impls = self.impls.clone();
        for (t, selfty) in impls {
            if t != tr {
                continue;
            }
            let mut args: Vec<ty::GenericArg<'tcx>> = inst.args.iter().collect();
            args[0] = selfty.into();
            let args = self.tcx.mk_args(&args);
            if let Ok(Some(i)) = Instance::try_resolve(self.tcx, self.env, mdid, args) {
                let id = self.intern(i);
                out.push((id, format!("{}", selfty)));
            }
        }
        out
    }
}

fn mono_facts<'tcx>(tcx: TyCtxt<'tcx>, ws: &[String], roots_crate: &str) -> J {
    let mut w = Walk {
        tcx,
        env: TypingEnv::fully_monomorphized(),
        ids: HashMap::new(),
        order: Vec::new(),
        queue: VecDeque::new(),
        impls: Vec::new(),
        unsize: Vec::new(),
        virtuals: Vec::new(),
        bodies: HashMap::new(),
        ws: ws.to_vec(),
        unresolved: Vec::new(),
    };
    let mut roots = Vec::new();
    for ldid in tcx.mir_keys(()) {
        let did = ldid.to_def_id();
        if tcx.def_kind(did) == DefKind::Fn
            && tcx.item_name(did).as_str().starts_with("roots")
            && tcx.generics_of(did).count() == 0
        {
            let i = Instance::mono(tcx, did);
            let id = w.intern(i);
            roots.push(J::Int(id as i128));
        }
    }
    w.run();

    let mut insts = Vec::new();
    for id in 0..w.order.len() {
        let inst = w.order[id];
        let did = inst.def_id();
        let krate = tcx.crate_name(did.krate).as_str().to_string();
        let kind = match inst.def {
            InstanceKind::Item(d) => {
                if tcx.is_foreign_item(d) {
                    "foreign"
                } else if matches!(tcx.def_kind(d), DefKind::Closure) {
                    "closure"
                } else {
                    "item"
                }
            }
            InstanceKind::Intrinsic(_) => "intrinsic",
            InstanceKind::Virtual(..) => "virtual",
            InstanceKind::DropGlue(..) => "drop_glue",
            InstanceKind::ClosureOnceShim { .. } => "closure_once_shim",
            InstanceKind::FnPtrShim(..) => "fnptr_shim",
            InstanceKind::ReifyShim(..) => "reify_shim",
            InstanceKind::VTableShim(..) => "vtable_shim",
            InstanceKind::CloneShim(..) => "clone_shim",
            InstanceKind::ThreadLocalShim(..) => "tls_shim",
            _ => "other_shim",
        };
        let local = w.ws.iter().any(|c| *c == krate) || krate == roots_crate;
        let mut o = vec![
            ("id", J::Int(id as i128)),
            ("name", J::s(format!("{}", inst))),
            ("def", J::s(tcx.def_path_str(did))),
            ("crate", J::s(krate)),
            ("kind", J::s(kind)),
            ("local", J::Bool(local)),
            ("args", J::Arr(inst.args.iter().map(|a| J::s(format!("{}", a))).collect())),
            ("span", J::s(span_str(tcx, tcx.def_span(did)))),
        ];
        if let InstanceKind::DropGlue(_, Some(t)) = inst.def {
            o.push(("drop_ty", J::s(format!("{}", t))));
        }
        if kind == "foreign" {
            o.push(("symbol", J::s(tcx.symbol_name(inst).name)));
        }
        if let InstanceKind::Virtual(..) = inst.def {
            let targets = w.virtual_targets(id);
            o.push((
                "impls",
                J::Arr(
                    targets
                        .into_iter()
                        .map(|(i, via)| J::Arr(vec![J::Int(i as i128), J::s(via)]))
                        .collect(),
                ),
            ));
            o.push(("dyn", J::s(format!("{}", inst.args.type_at(0)))));
        }
        if kind == "closure" || kind == "item" {
            if let Some(p) = tcx.opt_parent(did) {
                if kind == "closure" {
                    o.push(("parent", J::s(tcx.def_path_str(tcx.typeck_root_def_id(did)))));
                    let _ = p;
                }
            }
        }
        if let Some(b) = w.bodies.remove(&id) {
            o.push(("body", b));
        }
        insts.push(J::Obj(o));
    }
    let impls: Vec<J> = w
        .impls
        .iter()
        .map(|(t, s)| J::Arr(vec![J::s(format!("{}", t)), J::s(format!("{}", s))]))
        .collect();
    J::Obj(vec![
        ("roots", J::Arr(roots)),
        ("instances", J::Arr(insts)),
        ("dyn_impls", J::Arr(impls)),
        ("unsize", J::Arr(std::mem::take(&mut w.unsize))),
        ("unresolved", J::Arr(std::mem::take(&mut w.unresolved))),
    ])
}

fn main() {
    let mut args: Vec<String> = std::env::args().collect();
    // RUSTC_WRAPPER convention: argv[1] is the path of the real rustc.
    if args.len() > 1 && (args[1].ends_with("rustc") || args[1].contains("/rustc")) {
        args.remove(1);
    }
    if args.last().map(|s| s == "-").unwrap_or(false) && !args.iter().any(|a| a == "--crate-name")
    {
        // Feature probe piped on stdin by a build script: answer "not available", so that
        // dependencies build in their stable configuration.
        std::process::exit(1);
    }
    rustc_driver::run_compiler(&args, &mut Cb);
}
